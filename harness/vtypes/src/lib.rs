//! Instrumented value types for the verification engines, and the creation/destruction ledger.
//!
//! No dependency on truc. Every droppable type carries an instance id handed out by a
//! thread-local ledger at creation / clone / decode; its `Drop` reports to the ledger. A second
//! destruction, or the destruction of bytes that were never an instance, is recorded as an error;
//! instances still alive at the end of a case are leaks.

use std::cell::{Cell, RefCell};
use std::collections::BTreeMap;

pub mod ledger {
    use super::*;

    #[derive(Clone, Debug, PartialEq, Eq)]
    pub struct Live {
        pub type_name: &'static str,
        pub tok: u64,
    }

    #[derive(Default)]
    pub struct Ledger {
        pub next_id: u64,
        pub live: BTreeMap<u64, Live>,
        pub dead: BTreeMap<u64, &'static str>,
        /// zero-size droppable types: live count per type
        pub zst_live: BTreeMap<&'static str, i64>,
        pub errors: Vec<String>,
        pub created: u64,
        pub dropped: u64,
    }

    thread_local! {
        pub static LEDGER: RefCell<Ledger> = RefCell::new(Ledger::default());
        /// Countdown for the injected clone panic: the clone that brings it from 1 to 0 panics.
        pub static CLONE_COUNTDOWN: Cell<i64> = const { Cell::new(-1) };
        pub static CLONES: Cell<u64> = const { Cell::new(0) };
    }

    pub fn reset() {
        LEDGER.with(|l| *l.borrow_mut() = Ledger { next_id: 1, ..Default::default() });
        CLONE_COUNTDOWN.with(|c| c.set(-1));
        CLONES.with(|c| c.set(0));
    }

    pub fn create(type_name: &'static str, tok: u64, max_id: u64) -> u64 {
        LEDGER.with(|l| {
            let mut l = l.borrow_mut();
            if l.next_id == 0 {
                l.next_id = 1;
            }
            let id = l.next_id;
            if id > max_id {
                // machinery limit, not a verdict
                eprintln!("MACHINERY-ERROR: instance id {} exceeds the id width of {}", id, type_name);
                std::process::exit(2);
            }
            l.next_id += 1;
            l.created += 1;
            l.live.insert(id, Live { type_name, tok });
            id
        })
    }

    pub fn create_zst(type_name: &'static str) {
        LEDGER.with(|l| {
            let mut l = l.borrow_mut();
            l.created += 1;
            *l.zst_live.entry(type_name).or_insert(0) += 1;
        })
    }

    pub fn destroy_zst(type_name: &'static str) {
        // `try_with`: values may be dropped during thread teardown
        let _ = LEDGER.try_with(|l| {
            let mut l = l.borrow_mut();
            l.dropped += 1;
            let c = l.zst_live.entry(type_name).or_insert(0);
            *c -= 1;
            if *c < 0 {
                let msg = format!("zero-size {} destroyed more often than created", type_name);
                l.errors.push(msg);
            }
        });
    }

    pub fn destroy(type_name: &'static str, id: u64) {
        let _ = LEDGER.try_with(|l| {
            let mut l = l.borrow_mut();
            l.dropped += 1;
            match l.live.remove(&id) {
                Some(live) => {
                    if live.type_name != type_name {
                        l.errors.push(format!(
                            "instance #{} created as {} destroyed as {}",
                            id, live.type_name, type_name
                        ));
                    }
                    l.dead.insert(id, type_name);
                }
                None => {
                    if l.dead.contains_key(&id) {
                        l.errors.push(format!("double drop of {} instance #{}", type_name, id));
                    } else {
                        l.errors.push(format!(
                            "drop of {} with unknown instance id #{} (never created: garbage or overwritten storage)",
                            type_name, id
                        ));
                    }
                }
            }
        });
    }

    /// Token of a live instance as the ledger knows it (None: not alive).
    pub fn tok_of(id: u64) -> Option<u64> {
        LEDGER.with(|l| l.borrow().live.get(&id).map(|x| x.tok))
    }

    pub fn set_tok(id: u64, tok: u64) {
        LEDGER.with(|l| {
            if let Some(x) = l.borrow_mut().live.get_mut(&id) {
                x.tok = tok;
            }
        })
    }

    pub fn is_live(id: u64) -> bool {
        LEDGER.with(|l| l.borrow().live.contains_key(&id))
    }

    #[derive(Debug, Clone, Default)]
    pub struct Summary {
        pub created: u64,
        pub dropped: u64,
        pub live: Vec<(u64, &'static str, u64)>,
        pub zst_live: Vec<(&'static str, i64)>,
        pub errors: Vec<String>,
    }

    impl Summary {
        pub fn balanced(&self) -> bool {
            self.live.is_empty() && self.errors.is_empty() && self.zst_live.iter().all(|x| x.1 == 0)
        }
        pub fn describe(&self) -> String {
            let mut s = String::new();
            for e in &self.errors {
                s.push_str(e);
                s.push_str("; ");
            }
            for (id, t, tok) in &self.live {
                s.push_str(&format!("leaked {} #{} (value {}); ", t, id, tok));
            }
            for (t, n) in &self.zst_live {
                if *n != 0 {
                    s.push_str(&format!("zero-size {} live count {}; ", t, n));
                }
            }
            s
        }
    }

    pub fn summary() -> Summary {
        LEDGER.with(|l| {
            let l = l.borrow();
            Summary {
                created: l.created,
                dropped: l.dropped,
                live: l.live.iter().map(|(id, x)| (*id, x.type_name, x.tok)).collect(),
                zst_live: l.zst_live.iter().map(|(k, v)| (*k, *v)).collect(),
                errors: l.errors.clone(),
            }
        })
    }

    pub fn errors() -> Vec<String> {
        LEDGER.with(|l| l.borrow().errors.clone())
    }

    pub fn live_count() -> usize {
        LEDGER.with(|l| {
            let l = l.borrow();
            l.live.len() + l.zst_live.values().filter(|v| **v > 0).map(|v| *v as usize).sum::<usize>()
        })
    }

    /// Arms the injected clone panic: the `n`-th (1-based) clone of a droppable value from now on
    /// panics with a [`HarnessPanic`] payload. `n <= 0` disarms.
    pub fn arm_clone_panic(n: i64) {
        CLONE_COUNTDOWN.with(|c| c.set(if n <= 0 { -1 } else { n }));
    }

    pub fn clones() -> u64 {
        CLONES.with(|c| c.get())
    }

    pub(crate) fn on_clone(type_name: &'static str) {
        CLONES.with(|c| c.set(c.get() + 1));
        let fire = CLONE_COUNTDOWN.with(|c| {
            let v = c.get();
            if v > 0 {
                c.set(v - 1);
                v == 1
            } else {
                false
            }
        });
        if fire {
            CLONE_COUNTDOWN.with(|c| c.set(-1));
            std::panic::panic_any(HarnessPanic { code: 0xC10E, what: type_name });
        }
    }
}

/// Payload of every panic the harness injects.
#[derive(Debug, Clone, PartialEq, Eq)]
pub struct HarnessPanic {
    pub code: u64,
    pub what: &'static str,
}

/// Token that the instrumented `Deserialize` impls refuse to decode.
pub const POISON_TOK: u64 = 999_999;

/// Interface of every value type the drivers store in records and vectors.
pub trait Field: Sized + 'static {
    const NAME: &'static str;
    const DROPPABLE: bool;
    const ZST: bool = false;
    fn make(tok: u64) -> Self;
    /// The value as the instance itself stores it (u64::MAX-ish sentinels when the id is garbage).
    fn tok(&self) -> u64;
    /// Instance id (0 for plain data and zero-size types).
    fn id(&self) -> u64 {
        0
    }
    /// What `make(tok).tok()` gives: plain types truncate.
    fn norm(tok: u64) -> u64;
    /// In-place modification through a mutable reference (the instance keeps its identity).
    fn set_tok(&mut self, tok: u64);
}

macro_rules! pod_type {
    ($name:ident, $inner:ty) => {
        #[derive(Clone, Copy, PartialEq, Eq, Debug)]
        #[repr(transparent)]
        pub struct $name(pub $inner);
        impl Field for $name {
            const NAME: &'static str = stringify!($name);
            const DROPPABLE: bool = false;
            fn make(tok: u64) -> Self {
                $name(tok as $inner)
            }
            fn tok(&self) -> u64 {
                self.0 as u64
            }
            fn norm(tok: u64) -> u64 {
                (tok as $inner) as u64
            }
            fn set_tok(&mut self, tok: u64) {
                *self = Self::make(tok);
            }
        }
        impl serde::Serialize for $name {
            fn serialize<S: serde::Serializer>(&self, s: S) -> Result<S::Ok, S::Error> {
                s.serialize_u64(self.tok())
            }
        }
        impl<'de> serde::Deserialize<'de> for $name {
            fn deserialize<D: serde::Deserializer<'de>>(d: D) -> Result<Self, D::Error> {
                let tok = <u64 as serde::Deserialize>::deserialize(d)?;
                if tok == POISON_TOK {
                    return Err(<D::Error as serde::de::Error>::custom("undecodable element"));
                }
                Ok(Self::make(tok))
            }
        }
    };
}

pod_type!(Pod1, u8);
pod_type!(Pod2, u16);
pod_type!(Pod4, u32);
pod_type!(Pod8, u64);
pod_type!(Pod16, u128);
pod_type!(Pod4b, u32);

/// Plain data of size 3, alignment 1.
#[derive(Clone, Copy, PartialEq, Eq, Debug)]
pub struct Pod3(pub [u8; 3]);
impl Field for Pod3 {
    const NAME: &'static str = "Pod3";
    const DROPPABLE: bool = false;
    fn make(tok: u64) -> Self {
        Pod3([tok as u8, (tok >> 8) as u8, (tok >> 16) as u8])
    }
    fn tok(&self) -> u64 {
        self.0[0] as u64 | (self.0[1] as u64) << 8 | (self.0[2] as u64) << 16
    }
    fn norm(tok: u64) -> u64 {
        tok & 0xff_ffff
    }
    fn set_tok(&mut self, tok: u64) {
        *self = Self::make(tok);
    }
}
impl serde::Serialize for Pod3 {
    fn serialize<S: serde::Serializer>(&self, s: S) -> Result<S::Ok, S::Error> {
        s.serialize_u64(self.tok())
    }
}
impl<'de> serde::Deserialize<'de> for Pod3 {
    fn deserialize<D: serde::Deserializer<'de>>(d: D) -> Result<Self, D::Error> {
        let tok = <u64 as serde::Deserialize>::deserialize(d)?;
        if tok == POISON_TOK {
            return Err(<D::Error as serde::de::Error>::custom("undecodable element"));
        }
        Ok(Self::make(tok))
    }
}

/// Plain data of size 20, alignment 4: every byte is derived from the token and checked on reading.
#[derive(Clone, Copy, PartialEq, Eq, Debug)]
pub struct Pod20(pub [u32; 5]);
impl Field for Pod20 {
    const NAME: &'static str = "Pod20";
    const DROPPABLE: bool = false;
    fn make(tok: u64) -> Self {
        let t = tok as u32;
        Pod20([t, t ^ 0x1111_1111, t ^ 0x2222_2222, t ^ 0x3333_3333, t ^ 0x4444_4444])
    }
    fn tok(&self) -> u64 {
        let t = self.0[0];
        if *self == Self::make(t as u64) {
            t as u64
        } else {
            u64::MAX - 1
        }
    }
    fn norm(tok: u64) -> u64 {
        tok & 0xffff_ffff
    }
    fn set_tok(&mut self, tok: u64) {
        *self = Self::make(tok);
    }
}
impl serde::Serialize for Pod20 {
    fn serialize<S: serde::Serializer>(&self, s: S) -> Result<S::Ok, S::Error> {
        s.serialize_u64(self.tok())
    }
}
impl<'de> serde::Deserialize<'de> for Pod20 {
    fn deserialize<D: serde::Deserializer<'de>>(d: D) -> Result<Self, D::Error> {
        let tok = <u64 as serde::Deserialize>::deserialize(d)?;
        if tok == POISON_TOK {
            return Err(<D::Error as serde::de::Error>::custom("undecodable element"));
        }
        Ok(Self::make(tok))
    }
}

/// Plain zero-size data.
#[derive(Clone, Copy, PartialEq, Eq, Debug)]
pub struct PodZ;
impl Field for PodZ {
    const NAME: &'static str = "PodZ";
    const DROPPABLE: bool = false;
    const ZST: bool = true;
    fn make(_tok: u64) -> Self {
        PodZ
    }
    fn tok(&self) -> u64 {
        0
    }
    fn norm(_tok: u64) -> u64 {
        0
    }
    fn set_tok(&mut self, tok: u64) {
        *self = Self::make(tok);
    }
}
impl serde::Serialize for PodZ {
    fn serialize<S: serde::Serializer>(&self, s: S) -> Result<S::Ok, S::Error> {
        s.serialize_u64(0)
    }
}
impl<'de> serde::Deserialize<'de> for PodZ {
    fn deserialize<D: serde::Deserializer<'de>>(d: D) -> Result<Self, D::Error> {
        let tok = <u64 as serde::Deserialize>::deserialize(d)?;
        if tok == POISON_TOK {
            return Err(<D::Error as serde::de::Error>::custom("undecodable element"));
        }
        Ok(PodZ)
    }
}

/// Droppable types: `$id_ty` is the inline id field, `$tok_ty` the inline copy of the value
/// (`()` = none: the value lives in the ledger only), then padding fields.
macro_rules! own_type {
    ($(#[$attr:meta])* $name:ident, id: $id_ty:ty, tok: $tok_ty:ty $(, pad: $pad_ty:ty = $pad_val:expr)?) => {
        $(#[$attr])*
        #[derive(Debug)]
        pub struct $name {
            id: $id_ty,
            tok: $tok_ty,
            $(pad: $pad_ty,)?
        }
        impl Field for $name {
            const NAME: &'static str = stringify!($name);
            const DROPPABLE: bool = true;
            fn make(tok: u64) -> Self {
                let id = ledger::create(stringify!($name), tok, <$id_ty>::MAX as u64);
                $name { id: id as $id_ty, tok: tok as $tok_ty $(, pad: $pad_val)? }
            }
            fn tok(&self) -> u64 {
                let inline = self.tok as u64;
                // the filler bytes are part of the value: a store that loses the tail of a big value shows here
                $(if self.pad != $pad_val {
                    return u64::MAX - 1;
                })?
                match ledger::tok_of(self.id as u64) {
                    // the inline copy must agree with the ledger (detects clobbered bytes)
                    Some(t) if (t as $tok_ty) as u64 == inline => t,
                    Some(_) => u64::MAX - 1,
                    None => u64::MAX,
                }
            }
            fn id(&self) -> u64 {
                self.id as u64
            }
            fn norm(tok: u64) -> u64 {
                tok
            }
            fn set_tok(&mut self, tok: u64) {
                self.set_tok_raw(tok);
            }
        }
        impl $name {
            /// In-place modification through a mutable reference.
            pub fn set_tok_raw(&mut self, tok: u64) {
                self.tok = tok as $tok_ty;
                ledger::set_tok(self.id as u64, tok);
            }
        }
        impl Drop for $name {
            fn drop(&mut self) {
                ledger::destroy(stringify!($name), self.id as u64);
            }
        }
        impl Clone for $name {
            fn clone(&self) -> Self {
                ledger::on_clone(stringify!($name));
                Self::make(self.tok())
            }
        }
        impl serde::Serialize for $name {
            fn serialize<S: serde::Serializer>(&self, s: S) -> Result<S::Ok, S::Error> {
                s.serialize_u64(self.tok())
            }
        }
        impl<'de> serde::Deserialize<'de> for $name {
            fn deserialize<D: serde::Deserializer<'de>>(d: D) -> Result<Self, D::Error> {
                let tok = <u64 as serde::Deserialize>::deserialize(d)?;
                if tok == POISON_TOK {
                    return Err(<D::Error as serde::de::Error>::custom("undecodable element"));
                }
                Ok(Self::make(tok))
            }
        }
    };
}

own_type!(#[repr(C)] Own8, id: u32, tok: u32);
own_type!(#[repr(C)] Own8b, id: u32, tok: u32);
own_type!(#[repr(C)] Own1, id: u8, tok: u8 );
own_type!(#[repr(C)] Own1b, id: u8, tok: u8);
own_type!(#[repr(C)] Own2, id: u16, tok: u16);
own_type!(#[repr(C)] Own2b, id: u16, tok: u16);
own_type!(#[repr(C)] Own12, id: u32, tok: u32, pad: u32 = 0x5a5a_5a5a);
own_type!(#[repr(C)] Own12b, id: u32, tok: u32, pad: u32 = 0x5a5a_5a5a);
own_type!(#[repr(C)] Own24, id: u64, tok: u64, pad: u64 = 0x5a5a_5a5a_5a5a_5a5a);
own_type!(#[repr(C)] Own24b, id: u64, tok: u64, pad: u64 = 0x5a5a_5a5a_5a5a_5a5a);
// bigger than 16 bytes with a size that is not a multiple of 8 (word-wise copies lose the tail)
own_type!(#[repr(C)] Own20, id: u32, tok: u32, pad: [u32; 3] = [0x5a5a_5a5a; 3]);
own_type!(#[repr(C)] Own33, id: u8, tok: u8, pad: [u8; 31] = [0x5a; 31]);
// large alignments and the sizes next to them (packed layout keys collide there)
own_type!(#[repr(C, align(32))] Own32a, id: u32, tok: u32);
own_type!(#[repr(C)] Own32u, id: u8, tok: u8, pad: [u8; 30] = [0x5a; 30]);
own_type!(#[repr(C, align(256))] Own256a, id: u32, tok: u32);
own_type!(#[repr(C)] Own257, id: u8, tok: u8, pad: [u8; 255] = [0x5a; 255]);
own_type!(#[repr(C, align(16))] Own16a, id: u32, tok: u32);
own_type!(#[repr(C, align(16))] Own16b, id: u32, tok: u32);
own_type!(#[repr(C)] Big72, id: u32, tok: u32, pad: [u64; 8] = [0x5a5a_5a5a_5a5a_5a5a; 8]);
own_type!(#[repr(C)] Big72b, id: u32, tok: u32, pad: [u64; 8] = [0x5a5a_5a5a_5a5a_5a5a; 8]);
// same size, different alignment (C10 matrix)
own_type!(#[repr(C)] Own2a1, id: u8, tok: u8);
own_type!(#[repr(C)] Own2a1b, id: u8, tok: u8);
own_type!(#[repr(C)] Own4a2, id: u16, tok: u16);
own_type!(#[repr(C)] Own4a2b, id: u16, tok: u16);
own_type!(#[repr(C)] Own4a1, id: u8, tok: u8, pad: [u8; 2] = [0x5a; 2]);
own_type!(#[repr(C)] Own4a1b, id: u8, tok: u8, pad: [u8; 2] = [0x5a; 2]);
own_type!(#[repr(C)] Own4, id: u16, tok: u8, pad: u32 = 0);

/// Droppable, size 3, alignment 1.
#[derive(Debug)]
#[repr(C)]
pub struct Own3 {
    id: u8,
    tok: [u8; 2],
}
/// Droppable, size 3, alignment 1 (second type of the same layout).
#[derive(Debug)]
#[repr(C)]
pub struct Own3b {
    id: u8,
    tok: [u8; 2],
}
macro_rules! own3_impl {
    ($name:ident) => {
        impl Field for $name {
            const NAME: &'static str = stringify!($name);
            const DROPPABLE: bool = true;
            fn make(tok: u64) -> Self {
                let id = ledger::create(stringify!($name), tok, u8::MAX as u64);
                $name { id: id as u8, tok: (tok as u16).to_le_bytes() }
            }
            fn tok(&self) -> u64 {
                let inline = u16::from_le_bytes(self.tok) as u64;
                match ledger::tok_of(self.id as u64) {
                    Some(t) if (t as u16) as u64 == inline => t,
                    Some(_) => u64::MAX - 1,
                    None => u64::MAX,
                }
            }
            fn id(&self) -> u64 {
                self.id as u64
            }
            fn norm(tok: u64) -> u64 {
                tok
            }
            fn set_tok(&mut self, tok: u64) {
                self.set_tok_raw(tok);
            }
        }
        impl $name {
            pub fn set_tok_raw(&mut self, tok: u64) {
                self.tok = (tok as u16).to_le_bytes();
                ledger::set_tok(self.id as u64, tok);
            }
        }
        impl Drop for $name {
            fn drop(&mut self) {
                ledger::destroy(stringify!($name), self.id as u64);
            }
        }
        impl Clone for $name {
            fn clone(&self) -> Self {
                ledger::on_clone(stringify!($name));
                Self::make(self.tok())
            }
        }
        impl serde::Serialize for $name {
            fn serialize<S: serde::Serializer>(&self, s: S) -> Result<S::Ok, S::Error> {
                s.serialize_u64(self.tok())
            }
        }
        impl<'de> serde::Deserialize<'de> for $name {
            fn deserialize<D: serde::Deserializer<'de>>(d: D) -> Result<Self, D::Error> {
                let tok = <u64 as serde::Deserialize>::deserialize(d)?;
                if tok == POISON_TOK {
                    return Err(<D::Error as serde::de::Error>::custom("undecodable element"));
                }
                Ok(Self::make(tok))
            }
        }
    };
}
own3_impl!(Own3);
own3_impl!(Own3b);

/// Droppable value that owns real heap memory (a second destruction is also a double free).
macro_rules! own_box {
    ($name:ident) => {
        #[derive(Debug)]
        pub struct $name(Box<(u64, u64)>);
        impl Field for $name {
            const NAME: &'static str = stringify!($name);
            const DROPPABLE: bool = true;
            fn make(tok: u64) -> Self {
                let id = ledger::create(stringify!($name), tok, u64::MAX);
                $name(Box::new((id, tok)))
            }
            fn tok(&self) -> u64 {
                match ledger::tok_of(self.0 .0) {
                    Some(t) if t == self.0 .1 => t,
                    Some(_) => u64::MAX - 1,
                    None => u64::MAX,
                }
            }
            fn id(&self) -> u64 {
                self.0 .0
            }
            fn norm(tok: u64) -> u64 {
                tok
            }
            fn set_tok(&mut self, tok: u64) {
                self.set_tok_raw(tok);
            }
        }
        impl $name {
            pub fn set_tok_raw(&mut self, tok: u64) {
                self.0 .1 = tok;
                ledger::set_tok(self.0 .0, tok);
            }
        }
        impl Drop for $name {
            fn drop(&mut self) {
                ledger::destroy(stringify!($name), self.0 .0);
            }
        }
        impl Clone for $name {
            fn clone(&self) -> Self {
                ledger::on_clone(stringify!($name));
                Self::make(self.tok())
            }
        }
        impl serde::Serialize for $name {
            fn serialize<S: serde::Serializer>(&self, s: S) -> Result<S::Ok, S::Error> {
                s.serialize_u64(self.tok())
            }
        }
        impl<'de> serde::Deserialize<'de> for $name {
            fn deserialize<D: serde::Deserializer<'de>>(d: D) -> Result<Self, D::Error> {
                let tok = <u64 as serde::Deserialize>::deserialize(d)?;
                if tok == POISON_TOK {
                    return Err(<D::Error as serde::de::Error>::custom("undecodable element"));
                }
                Ok(Self::make(tok))
            }
        }
    };
}
own_box!(OwnBox);
own_box!(OwnBox2);

/// Droppable zero-size types (counted by the ledger).
macro_rules! own_zst {
    ($(#[$attr:meta])* $name:ident) => {
        $(#[$attr])*
        #[derive(Debug)]
        pub struct $name {
            _private: (),
        }
        impl Field for $name {
            const NAME: &'static str = stringify!($name);
            const DROPPABLE: bool = true;
            const ZST: bool = true;
            fn make(_tok: u64) -> Self {
                ledger::create_zst(stringify!($name));
                $name { _private: () }
            }
            fn tok(&self) -> u64 {
                0
            }
            fn norm(_tok: u64) -> u64 {
                0
            }
            fn set_tok(&mut self, tok: u64) {
                self.set_tok_raw(tok);
            }
        }
        impl $name {
            pub fn set_tok_raw(&mut self, _tok: u64) {}
        }
        impl Drop for $name {
            fn drop(&mut self) {
                ledger::destroy_zst(stringify!($name));
            }
        }
        impl Clone for $name {
            fn clone(&self) -> Self {
                ledger::on_clone(stringify!($name));
                Self::make(0)
            }
        }
        impl serde::Serialize for $name {
            fn serialize<S: serde::Serializer>(&self, s: S) -> Result<S::Ok, S::Error> {
                s.serialize_u64(0)
            }
        }
        impl<'de> serde::Deserialize<'de> for $name {
            fn deserialize<D: serde::Deserializer<'de>>(d: D) -> Result<Self, D::Error> {
                let tok = <u64 as serde::Deserialize>::deserialize(d)?;
                if tok == POISON_TOK {
                    return Err(<D::Error as serde::de::Error>::custom("undecodable element"));
                }
                Ok(Self::make(0))
            }
        }
    };
}
own_zst!(OwnZ);
own_zst!(OwnZ2);
own_zst!(#[repr(align(4))] OwnZ4);
own_zst!(#[repr(align(4))] OwnZ4b);

impl Pod4 {
    pub fn set_tok_raw(&mut self, tok: u64) {
        self.0 = tok as u32;
    }
}
impl Pod4b {
    pub fn set_tok_raw(&mut self, tok: u64) {
        self.0 = tok as u32;
    }
}

#[cfg(test)]
mod tests {
    use super::*;
    #[test]
    fn layouts() {
        use std::mem::{align_of, size_of};
        assert_eq!((size_of::<Own8>(), align_of::<Own8>()), (8, 4));
        assert_eq!((size_of::<Own1>(), align_of::<Own1>()), (2, 1));
        assert_eq!((size_of::<Own3>(), align_of::<Own3>()), (3, 1));
        assert_eq!((size_of::<Own12>(), align_of::<Own12>()), (12, 4));
        assert_eq!((size_of::<Own24>(), align_of::<Own24>()), (24, 8));
        assert_eq!((size_of::<Own16a>(), align_of::<Own16a>()), (16, 16));
        assert_eq!((size_of::<Big72>(), align_of::<Big72>()), (72, 8));
        assert_eq!((size_of::<OwnBox>(), align_of::<OwnBox>()), (8, 8));
        assert_eq!((size_of::<OwnZ>(), align_of::<OwnZ>()), (0, 1));
        assert_eq!((size_of::<OwnZ4>(), align_of::<OwnZ4>()), (0, 4));
        assert_eq!((size_of::<Own4a1>(), align_of::<Own4a1>()), (4, 1));
        assert_eq!((size_of::<Own4a2>(), align_of::<Own4a2>()), (4, 2));
        assert_eq!((size_of::<Own2a1>(), align_of::<Own2a1>()), (2, 1));
        assert_eq!((size_of::<Own2>(), align_of::<Own2>()), (4, 2));
        assert_eq!((size_of::<Own4>(), align_of::<Own4>()), (8, 4));
    }
    #[test]
    fn ledger_works() {
        ledger::reset();
        let a = Own8::make(5);
        let b = a.clone();
        assert_eq!(b.tok(), 5);
        drop(a);
        assert!(!ledger::summary().balanced());
        drop(b);
        assert!(ledger::summary().balanced());
        let c = Own8::make(7);
        let c2 = unsafe { std::ptr::read(&c) };
        drop(c);
        drop(c2);
        assert_eq!(ledger::summary().errors.len(), 1);
    }
}
