//! Engine B, stage 2 — runs the stateless explorer of `reccore` over every definition of the
//! family, at three capacities, in crash-isolated child processes, for each build of the matrix.
//!   recrun <C03|C04|C05|C06|C07|C15|C16> [quick|thorough] [--replay file]

use std::path::PathBuf;

use reccore::{
    explore::{enumerate, run_path, Family, PathSpec},
    DefEntry, CAP_EXTRA,
};
use vcommon::{json, CaseOutcome, Report, Tier, Value, Violation};

fn all_defs() -> Vec<DefEntry> {
    let mut v = vec![];
    v.extend(shard0::registry());
    v.extend(shard1::registry());
    v.extend(shard2::registry());
    v.extend(shard3::registry());
    v.extend(shard4::registry());
    v.extend(shard5::registry());
    v.extend(shard6::registry());
    v.extend(shard7::registry());
    v.extend(shard8::registry());
    v.extend(shard9::registry());
    v.extend(shard10::registry());
    v.extend(shard11::registry());
    v.extend(shard12::registry());
    v.extend(shard13::registry());
    v.extend(shard14::registry());
    v.extend(shard15::registry());
    v.sort_by(|a, b| a.name.cmp(b.name));
    v
}

fn build_name() -> String {
    format!(
        "{}{}",
        if cfg!(debug_assertions) { "debug" } else { "release" },
        if reccore::HOOKS { "+hooks" } else { "" }
    )
}

fn families_for(prop: &str) -> Vec<Family> {
    match prop {
        "C03" => vec![Family::Life],
        "C04" => vec![Family::Life, Family::Writes],
        "C05" => vec![Family::Life],
        "C06" => vec![Family::Life, Family::Writes, Family::Clone],
        "C07" => vec![Family::Life, Family::Writes, Family::Clone, Family::Serde],
        "C15" => vec![Family::Serde],
        "C16" => vec![Family::Clone],
        _ => vcommon::machinery_error("recrun serves C03 C04 C05 C06 C07 C15 C16"),
    }
}

/// A case = (definition, capacity index): all paths of the property's families.
fn run_case(defs: &[DefEntry], prop: &str, idx: usize) -> CaseOutcome {
    let d = &defs[idx / 3];
    let ci = idx % 3;
    let mut out = CaseOutcome::default();
    let mut g = match d.instantiate[ci] {
        Some(f) => f(),
        None => return out, // this capacity is not part of the family that was built
    };
    out.stat("cases_instantiated", 1);
    let meta = g.meta().clone();
    let case_base = |fam: &str, pi: usize, spec: &PathSpec, log: &[String]| {
        json!({
            "space": "record-path", "definition": d.name, "history": meta.history, "capacity": format!("MAX_SIZE+{}", CAP_EXTRA[ci]),
            "family": fam, "path_index": pi, "path": format!("{:?}", spec), "operations": log, "build": build_name(),
        })
    };
    // C03(b): one size and one alignment for all record types of the definition
    if prop == "C03" {
        let lay = g.layout();
        let ul = g.uninit_layout();
        out.stat("layout_comparisons", lay.len() as u64);
        if lay.iter().any(|x| *x != ul) || lay.windows(2).any(|w| w[0] != w[1]) {
            out.violations.push(Violation::new(
                "C03/record-types-differ-in-size-or-alignment",
                format!("{} at capacity MAX_SIZE+{}: (size_of, align_of) of the generated record types are {:?}, of RecordUninitialized {:?}", d.name, CAP_EXTRA[ci], lay, ul),
                json!({"space": "record-path", "definition": d.name, "history": meta.history, "capacity": format!("MAX_SIZE+{}", CAP_EXTRA[ci]), "family": "layout", "path_index": 0, "build": build_name()}),
            ));
        }
        if !reccore::HOOKS && meta.max_size != meta.declared_max_size {
            out.violations.push(Violation::new("C03/capacity-constant", format!("generated MAX_SIZE {} differs from the definition's {}", meta.max_size, meta.declared_max_size), json!({"space": "record-path", "definition": d.name, "family": "layout", "path_index": 0})));
        }
        if let Some(x) = lay.first() {
            if x.1 != meta.declared_max_align && !lay.is_empty() {
                out.violations.push(Violation::new("C03/record-alignment", format!("{}: generated records are aligned to {}, the definition says {}", d.name, x.1, meta.declared_max_align), json!({"space": "record-path", "definition": d.name, "history": meta.history, "family": "layout", "path_index": 0})));
            }
        }
    }
    for fam in families_for(prop) {
        let paths = enumerate(&meta, fam);
        for (pi, spec) in paths.iter().enumerate() {
            if prop == "C03" {
                // only the in-place vector conversions matter here
                if !matches!(spec, PathSpec::Life { place: reccore::Placement::InVec, forms, fill: false, write_between: false, .. } if !forms.is_empty()) {
                    continue;
                }
            }
            let o = run_path(&mut *g, spec);
            out.stat("paths", 1);
            out.stat("operations", o.ops);
            out.stat("field_reads", o.reads);
            for s in &o.states {
                let t = format!("{}|{}", d.name, s);
                if !out.tags.contains(&t) {
                    out.tag(t);
                }
            }
            for f in &o.findings {
                if f.prop == prop {
                    out.violations.push(Violation::new(f.key.clone(), format!("{} ({}, {}): {}", d.name, meta.history, build_name(), f.what), case_base(&format!("{:?}", fam), pi, spec, &o.log)));
                }
            }
            if o.poisoned {
                // a double drop or a corrupted value was observed: the process is not trustworthy
                if !out.violations.is_empty() {
                    out.poisoned = true;
                    break;
                }
            }
            if out.violations.len() > 20 {
                break;
            }
        }
        if out.poisoned {
            break;
        }
    }
    out.stat("hook_accesses", reccore::hook_accesses());
    if idx % 37 == 0 {
        out.sample = Some(json!({"definition": d.name, "history": meta.history, "capacity": format!("MAX_SIZE+{}", CAP_EXTRA[ci]), "fields": meta.data.iter().map(|f| format!("{}: {} @{}+{}", f.name, f.ty, f.offset, f.size)).collect::<Vec<_>>()}));
    }
    out
}

fn main() {
    let args = vcommon::parse_args();
    vcommon::quiet_panics();
    let prop = args.property.clone();
    let defs = all_defs();
    let n_cases = defs.len() * 3;

    if let Some(spec) = &args.child {
        vcommon::brief_panics();
        let p = prop.clone();
        vcommon::child_loop(spec, n_cases, |idx| run_case(&defs, &p, idx));
    }

    if let Some(path) = &args.replay {
        let doc = vcommon::read_replay(path);
        let c = &doc["case"];
        let name = c["definition"].as_str().unwrap_or("");
        let di = defs.iter().position(|d| d.name == name).unwrap_or_else(|| vcommon::machinery_error("definition of the replay is not in this build's family"));
        let ci = CAP_EXTRA.iter().position(|e| Some(format!("MAX_SIZE+{}", e).as_str()) == c["capacity"].as_str()).unwrap_or(0);
        let o = run_case(&defs, &prop, di * 3 + ci);
        for v in &o.violations {
            println!("REPLAY-VIOLATION property={} key={} :: {}", prop, v.key, v.what);
        }
        if o.violations.is_empty() {
            println!("REPLAY-OK property={} build={}", prop, build_name());
        }
        std::process::exit(if o.violations.is_empty() { 0 } else { 1 });
    }

    // parent: one pass per build of the matrix that exists
    let me = std::env::current_exe().unwrap();
    let target_dir = me.parent().unwrap().parent().unwrap().to_path_buf();
    let wanted: Vec<&str> = match (prop.as_str(), args.tier) {
        ("C07", Tier::Quick) => vec!["debug"],
        ("C07", Tier::Thorough) => vec!["debug", "relhooks"],
        ("C03", Tier::Quick) => vec!["release"],
        ("C03", Tier::Thorough) => vec!["release", "devplain"],
        (_, Tier::Quick) => vec!["release", "debug"],
        (_, Tier::Thorough) => vec!["release", "debug", "relhooks", "devplain"],
    };
    let mut exes: Vec<(String, PathBuf)> = vec![];
    for w in wanted {
        let p = target_dir.join(w).join("recrun");
        if !p.exists() {
            vcommon::machinery_error(&format!("missing build {}", p.display()));
        }
        exes.push((w.to_owned(), p));
    }
    let level = "model_checking";
    let mut report = Report::new("recrun", &args, level);
    if args.rest.iter().any(|a| a == "--merge") {
        report.merge_tag = Some("b".to_owned());
    }
    let child_args = vec![prop.clone(), args.tier.as_str().to_owned()];
    let workers = std::thread::available_parallelism().map(|n| n.get()).unwrap_or(4);
    let mut per_build = serde_json::Map::new();
    let (mut paths, mut ops, mut reads, mut hook_acc, mut crashes) = (0u64, 0u64, 0u64, 0u64, 0u64);
    let mut states = std::collections::BTreeSet::new();
    let mut samples = vec![];
    let mut complete = true;
    for (name, exe) in &exes {
        let crash = |idx: usize, status: String, err: String| {
            let d = &defs[idx / 3];
            Violation::new(
                format!("{}/crash", prop),
                format!("{}: the process died ({}) while exploring this definition; last stderr: {}", d.name, status, err.lines().rev().take(3).collect::<Vec<_>>().join(" | ")),
                json!({"space": "record-path", "definition": d.name, "capacity": format!("MAX_SIZE+{}", CAP_EXTRA[idx % 3]), "family": "all", "path_index": 0, "build": name}),
            )
        };
        let merged = vcommon::run_isolated(exe, &child_args, n_cases, workers, &crash);
        // every distinct violation key is reproduced once more in a fresh process before it is
        // reported; a replay that does not reproduce is a machinery error, never a verdict
        {
            let mut seen = std::collections::BTreeSet::new();
            for v in &merged.violations {
                if !seen.insert(v.key.clone()) || seen.len() > 6 {
                    continue;
                }
                let dname = v.case["definition"].as_str().unwrap_or("");
                let cap = v.case["capacity"].as_str().unwrap_or("MAX_SIZE+0");
                let di = defs.iter().position(|d| d.name == dname);
                let ci = CAP_EXTRA.iter().position(|e| format!("MAX_SIZE+{}", e) == cap).unwrap_or(0);
                if let Some(di) = di {
                    let again = vcommon::run_single(exe, &child_args, di * 3 + ci, &crash);
                    // memory damage does not fail the same way twice (a wrong value in one run, a
                    // dead process in the next): any violation of the re-explored case confirms it.
                    // A death of the process is reported even when the case survives on its own -
                    // the damage may have been done by an earlier case of the same process.
                    if again.is_empty() && !v.key.ends_with("/crash") {
                        vcommon::machinery_error(&format!("violation {} did not reproduce when {} was explored again in a fresh process", v.key, dname));
                    }
                }
            }
        }
        paths += merged.stats.get("paths").copied().unwrap_or(0);
        ops += merged.stats.get("operations").copied().unwrap_or(0);
        reads += merged.stats.get("field_reads").copied().unwrap_or(0);
        hook_acc += merged.stats.get("hook_accesses").copied().unwrap_or(0);
        crashes += merged.crashes;
        complete &= merged.complete && merged.cases_run == n_cases as u64;
        per_build.insert(name.clone(), json!({"definitions_x_capacities": merged.stats.get("cases_instantiated"), "paths": merged.stats.get("paths"), "operations": merged.stats.get("operations"), "violating": merged.violations_total, "crashes": merged.crashes, "hook_checked_accesses": merged.stats.get("hook_accesses")}));
        for t in merged.tags {
            states.insert(t);
        }
        samples.extend(merged.samples);
        report.violations_total += merged.violations_total;
        for v in merged.violations {
            if report.violations.len() < vcommon::MAX_KEPT_VIOLATIONS {
                report.violations.push(v);
            }
        }
    }
    samples.truncate(5);
    report
        .cov("states", states.len() as u64)
        .cov("transitions", ops)
        .cov("traces_validated_against_impl", paths)
        .cov("samples", samples)
        .cov("exhaustive", complete)
        .cov("definitions", defs.len() as u64)
        .cov("capacities", format!("MAX_SIZE + {:?}", CAP_EXTRA.iter().enumerate().filter(|(i, _)| defs.first().map_or(false, |d| d.instantiate[*i].is_some())).map(|(_, e)| *e).collect::<Vec<_>>()))
        .cov("paths_executed", paths)
        .cov("field_reads_compared_with_model", reads)
        .cov("hook_checked_accesses", hook_acc)
        .cov("child_crashes", crashes)
        .cov("builds", Value::Object(per_build))
        .cov("families", families_for(&prop).iter().map(|f| format!("{:?}", f)).collect::<Vec<_>>())
        .cov("explanation", "for every definition of the bounded family (generated by the real generate() at build time) and three capacities, every path of the listed families is executed on the real generated code in lock-step with a reference model (one optional token per field); states = distinct (definition, variant, uninitialised-field set, placement, capacity) abstract states visited; transitions = generated-function calls and read-backs executed; every path is a model trace validated against the implementation");
    report.assume("definition family: hand-picked zoo + all histories over {Pod4 may-be-uninit, Own8, OwnZ} within the tier's bound, default strategy (thorough: more types, three variants, basic)");
    report.assume("instrumented field types report construction/destruction to a ledger; hook builds add the per-byte storage shadow of truc_runtime's verif-hooks feature");
    report.assume("one host (x86-64), one toolchain");
    std::process::exit(report.finish());
}
