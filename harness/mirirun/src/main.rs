//! The fully-initialising paths of a reduced definition family, in one process and without child
//! processes, so that the same exploration can be interpreted by Miri (thorough tier of C04 and
//! C07: pointer provenance / permission, symbolic alignment checking, uninitialised reads, leaks).
//! Natively it is a plain run of the same paths.
//!
//! Paths that leave a may-be-uninit field uninitialised are excluded: the generated `Drop` reads
//! every field, and reading an uninitialised plain value is outside the properties' statements
//! (Miri would report it).

use reccore::{
    explore::{enumerate, run_path, Family, PathSpec},
    Ctor, Form, Placement,
};

fn miri_safe(spec: &PathSpec) -> bool {
    match spec {
        // the bystander record of the Vec placement is built by the same constructor and is
        // never filled: with an `*Uninit` constructor its `Drop` would read uninitialised fields
        PathSpec::Life { ctor, fill, forms, place, .. } => {
            (!ctor.is_uninit() || (*fill && *place != Placement::InVec)) && forms.iter().all(|f| matches!(f, Form::Full | Form::FullOut))
        }
        PathSpec::Writes { ctor, ops, .. } => !ctor.is_uninit() && ops.len() <= 1,
        PathSpec::Clone { ctor, .. } => !matches!(ctor, Ctor::FromUninit),
        PathSpec::Serde { .. } => true,
    }
}

fn main() {
    vcommon::quiet_panics();
    let prop = std::env::args().nth(1).unwrap_or_else(|| "C07".to_owned());
    let stride: usize = std::env::args().nth(2).and_then(|s| s.parse().ok()).unwrap_or(1);
    let offset: usize = std::env::args().nth(3).and_then(|s| s.parse().ok()).unwrap_or(0);
    let defs = shardm::registry();
    let (mut paths, mut ops, mut bad) = (0u64, 0u64, 0u64);
    for d in &defs {
        // the odd capacity is the interesting one for alignment
        for ci in [1usize, 0] {
            let mut g = (d.instantiate[ci].expect("capacity"))();
            let meta = g.meta().clone();
            for fam in [Family::Life, Family::Writes, Family::Clone, Family::Serde] {
                let all = enumerate(&meta, fam);
                for (pi, spec) in all.iter().enumerate() {
                    if !miri_safe(spec) || pi % stride != offset {
                        continue;
                    }
                    println!("PATH {} cap+{} {:?}#{} {:?}", d.name, reccore::CAP_EXTRA[ci], fam, pi, spec);
                    let o = run_path(&mut *g, spec);
                    paths += 1;
                    ops += o.ops;
                    for f in &o.findings {
                        if f.prop == prop || prop == "all" {
                            bad += 1;
                            println!("FINDING property={} key={} :: {} ({}) {}", f.prop, f.key, d.name, meta.history, f.what);
                        }
                    }
                }
            }
        }
    }
    println!("MIRIRUN definitions={} paths={} operations={} findings={}", defs.len(), paths, ops, bad);
    if bad > 0 {
        std::process::exit(1);
    }
}
