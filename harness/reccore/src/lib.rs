//! Engine B core: the interface the emitted glue implements, and the stateless explorer that
//! drives the real generated code in lock-step with a reference model.

use std::cell::{Cell, RefCell};

use truc_runtime::convert::{convert_vec_in_place, VecElementConversionResult};

pub mod explore;

pub type Tok = u64;

#[derive(Clone, Debug)]
pub struct FieldMeta {
    pub id: usize,
    pub name: &'static str,
    pub ty: &'static str,
    pub size: usize,
    pub align: usize,
    pub offset: usize,
    pub uninit: bool,
    pub droppable: bool,
    pub zst: bool,
    pub ghost: bool,
}

#[derive(Clone, Debug)]
pub struct VariantMeta {
    /// datum ids, in id order (the order of the generated `Unpacked*` structs)
    pub fields: Vec<usize>,
    /// datum ids in the order the definition declared them (recorded by the definition
    /// generator from the add requests themselves, not derived from the ids)
    pub declared: Vec<usize>,
    pub minus: Vec<usize>,
    pub plus: Vec<usize>,
}

#[derive(Clone, Debug)]
pub struct Meta {
    pub name: String,
    pub history: String,
    /// the generated `MAX_SIZE`
    pub max_size: usize,
    /// what the definition said when it was generated
    pub declared_max_size: usize,
    pub declared_max_align: usize,
    pub data: Vec<FieldMeta>,
    pub variants: Vec<VariantMeta>,
}

#[derive(Clone, Copy, PartialEq, Eq, Debug, Hash, PartialOrd, Ord)]
pub enum Placement {
    Inline,
    Boxed,
    InVec,
}

#[derive(Clone, Copy, PartialEq, Eq, Debug, Hash, PartialOrd, Ord)]
pub enum Ctor {
    New,
    NewUninit,
    FromFull,
    FromUninit,
}

impl Ctor {
    pub fn is_uninit(self) -> bool {
        matches!(self, Ctor::NewUninit | Ctor::FromUninit)
    }
}

#[derive(Clone, Copy, PartialEq, Eq, Debug, Hash, PartialOrd, Ord)]
pub enum Form {
    Full,
    Uninit,
    FullOut,
    UninitOut,
}

impl Form {
    pub const ALL: [Form; 4] = [Form::Full, Form::Uninit, Form::FullOut, Form::UninitOut];
    pub fn is_uninit(self) -> bool {
        matches!(self, Form::Uninit | Form::UninitOut)
    }
    pub fn is_out(self) -> bool {
        matches!(self, Form::FullOut | Form::UninitOut)
    }
}

/// Where a record lives. `InVec` holds a bystander record (built by the same constructor) at
/// index 0 and the record under test at index 1 (an element whose address is the buffer's plus
/// one record size); conversions of such a slot go through
/// `truc_runtime::convert::convert_vec_in_place`.
pub enum Place<T> {
    Inline(T),
    Boxed(Box<T>),
    InVec(Vec<T>),
}

thread_local! {
    static OUT: RefCell<Vec<(usize, Tok, u64)>> = const { RefCell::new(Vec::new()) };
    static OURS: Cell<bool> = const { Cell::new(true) };
}

pub fn out_begin() {
    OUT.with(|o| o.borrow_mut().clear());
    OURS.with(|o| o.set(true));
}
/// Records a value handed back by a conversion (only for the record under test).
pub fn out_push(datum: usize, tok: Tok, id: u64) {
    if OURS.with(|o| o.get()) {
        OUT.with(|o| o.borrow_mut().push((datum, tok, id)));
    }
}
pub fn out_take() -> Vec<(usize, Tok, u64)> {
    OUT.with(|o| std::mem::take(&mut *o.borrow_mut()))
}

impl<T> Place<T> {
    pub fn build(place: Placement, mut f: impl FnMut() -> T) -> Self {
        match place {
            Placement::Inline => Place::Inline(f()),
            Placement::Boxed => Place::Boxed(Box::new(f())),
            Placement::InVec => {
                let mut v = Vec::with_capacity(3);
                v.push(f());
                v.push(f());
                Place::InVec(v)
            }
        }
    }
    pub fn placement(&self) -> Placement {
        match self {
            Place::Inline(_) => Placement::Inline,
            Place::Boxed(_) => Placement::Boxed,
            Place::InVec(_) => Placement::InVec,
        }
    }
    pub fn get(&self) -> &T {
        match self {
            Place::Inline(t) => t,
            Place::Boxed(b) => b,
            Place::InVec(v) => &v[1],
        }
    }
    pub fn get_mut(&mut self) -> &mut T {
        match self {
            Place::Inline(t) => t,
            Place::Boxed(b) => b,
            Place::InVec(v) => &mut v[1],
        }
    }
    /// Takes the record under test out; a bystander is dropped normally.
    pub fn into_ours(self) -> T {
        match self {
            Place::Inline(t) => t,
            Place::Boxed(b) => *b,
            Place::InVec(mut v) => v.remove(1),
        }
    }
    pub fn convert<U>(self, f: impl Fn(T) -> U + std::panic::RefUnwindSafe) -> Place<U> {
        match self {
            Place::Inline(t) => Place::Inline(f(t)),
            Place::Boxed(b) => Place::Boxed(Box::new(f(*b))),
            Place::InVec(v) => {
                let out = convert_vec_in_place::<T, U, _>(v, |t, prev| {
                    OURS.with(|o| o.set(prev.is_some()));
                    let u = f(t);
                    OURS.with(|o| o.set(true));
                    VecElementConversionResult::Converted(u)
                });
                Place::InVec(out)
            }
        }
    }
}

/// What the emitted glue implements for every definition and capacity.
pub trait Glue {
    fn meta(&self) -> &Meta;
    fn cap(&self) -> usize;
    fn variant_of(&self, slot: usize) -> Option<usize>;
    /// (size_of, align_of) of every `CappedRecordK<CAP>`
    fn layout(&self) -> Vec<(usize, usize)>;
    fn uninit_layout(&self) -> (usize, usize);
    fn addr(&self, slot: usize) -> usize;
    /// `vals[i]` is the value for the i-th field (declaration order) of the variant; the
    /// may-be-uninit fields are skipped by the `*Uninit` constructors.
    fn construct(&mut self, slot: usize, place: Placement, variant: usize, ctor: Ctor, vals: &[Tok]);
    fn get(&self, slot: usize, datum: usize) -> Tok;
    fn get_id(&self, slot: usize, datum: usize) -> u64;
    /// assignment through the mutable accessor (the previous value is dropped)
    fn set(&mut self, slot: usize, datum: usize, tok: Tok);
    /// in-place modification through the mutable accessor
    fn poke(&mut self, slot: usize, datum: usize, tok: Tok);
    /// converts to the next variant; `plus[i]` is the value of the i-th added field; returns the
    /// (datum, value, instance) handed back by the `...AndUnpackedOut` forms
    fn convert(&mut self, slot: usize, form: Form, plus: &[Tok]) -> Vec<(usize, Tok, u64)>;
    fn unpack(&mut self, slot: usize) -> Vec<(usize, Tok, u64)>;
    fn drop_slot(&mut self, slot: usize);
    fn clone_into(&mut self, src: usize, dst: usize);
    fn clone_from_slot(&mut self, dst: usize, src: usize);
    fn to_json(&self, slot: usize) -> Result<String, String>;
    fn to_bincode(&self, slot: usize) -> Result<Vec<u8>, String>;
    fn from_json(&mut self, slot: usize, variant: usize, text: &str) -> Result<(), String>;
    fn from_bincode(&mut self, slot: usize, variant: usize, bytes: &[u8]) -> Result<(), String>;
    /// through `serde_json::Value` (a self-describing deserializer that knows its length)
    fn to_json_value(&self, slot: usize) -> Result<String, String>;
    fn from_json_value(&mut self, slot: usize, variant: usize, text: &str) -> Result<(), String>;
}

/// Entry of a shard's registry.
pub struct DefEntry {
    pub name: &'static str,
    pub max_size: fn() -> usize,
    /// one instance per capacity offset: MAX_SIZE + {0, 1, 5}
    /// one constructor per entry of `CAP_EXTRA`; `None`: this family does not instantiate that capacity
    pub instantiate: [Option<fn() -> Box<dyn Glue>>; 3],
}

pub const CAP_EXTRA: [usize; 3] = [0, 1, 5];

#[cfg(feature = "hooks")]
pub fn hook_events() -> Vec<String> {
    truc_runtime::verif::take_events()
}
#[cfg(not(feature = "hooks"))]
pub fn hook_events() -> Vec<String> {
    Vec::new()
}
#[cfg(feature = "hooks")]
pub fn hook_accesses() -> u64 {
    truc_runtime::verif::accesses()
}
#[cfg(not(feature = "hooks"))]
pub fn hook_accesses() -> u64 {
    0
}
pub const HOOKS: bool = cfg!(feature = "hooks");
