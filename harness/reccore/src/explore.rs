//! Stateless exploration of the real generated code of one definition at one capacity: every
//! path of the families below is executed on fresh records, in lock-step with a reference model
//! (one `Option<token>` per field), with the ledger and (hook builds) the storage shadow as
//! fail-loud oracles.

use std::collections::{BTreeMap, BTreeSet};
use std::panic::{catch_unwind, AssertUnwindSafe};

use vtypes::ledger;

use crate::*;

#[derive(Clone, Copy, PartialEq, Eq, Debug, Hash, PartialOrd, Ord)]
pub enum End {
    Drop,
    Unpack,
}

#[derive(Clone, PartialEq, Eq, Debug, Hash, PartialOrd, Ord)]
pub enum CloneScenario {
    DropSourceFirst,
    DropCloneFirst,
    MutateSource(usize),
    MutateClone(usize),
    CloneFrom,
    CloneFromSelfShape,
    PanicInClone(usize),
    PanicInCloneFrom(usize),
}

#[derive(Clone, PartialEq, Eq, Debug, Hash, PartialOrd, Ord)]
pub enum SerdeScenario {
    JsonRoundTrip,
    /// the same through `serde_json::Value` (deserializer with a size hint)
    JsonValueRoundTrip,
    JsonValueTruncated(usize),
    JsonValueUndecodable(usize),
    JsonValueExtraElement,
    BincodeRoundTrip,
    JsonTruncated(usize),
    JsonUndecodable(usize),
    JsonWrongType(usize),
    JsonExtraElement,
    BincodeTruncated(usize),
    BincodeUndecodable(usize),
}

#[derive(Clone, PartialEq, Eq, Debug, Hash, PartialOrd, Ord)]
pub enum PathSpec {
    /// construct at `start`, optionally initialise the may-be-uninit fields, convert along `forms`
    /// (optionally writing one field before each conversion), end of life
    Life {
        start: usize,
        ctor: Ctor,
        place: Placement,
        fill: bool,
        write_between: bool,
        forms: Vec<Form>,
        end: End,
    },
    /// all single and double writes through the mutable accessors: (in-place?, datum)
    Writes {
        variant: usize,
        ctor: Ctor,
        place: Placement,
        ops: Vec<(bool, usize)>,
        end: End,
    },
    Clone {
        variant: usize,
        ctor: Ctor,
        place: Placement,
        scenario: CloneScenario,
    },
    Serde {
        variant: usize,
        scenario: SerdeScenario,
    },
}

#[derive(Clone, Copy, PartialEq, Eq, Debug)]
pub enum Family {
    Life,
    Writes,
    Clone,
    Serde,
}

fn form_chains(n: usize) -> Vec<Vec<Form>> {
    let mut out: Vec<Vec<Form>> = vec![vec![]];
    for _ in 0..n {
        let mut next = vec![];
        for c in &out {
            for f in Form::ALL {
                let mut d = c.clone();
                d.push(f);
                next.push(d);
            }
        }
        out = next;
    }
    out
}

pub fn enumerate(meta: &Meta, family: Family) -> Vec<PathSpec> {
    let nv = meta.variants.len();
    let mut out = vec![];
    let places = [Placement::Inline, Placement::Boxed, Placement::InVec];
    let ctors = [Ctor::New, Ctor::NewUninit, Ctor::FromFull, Ctor::FromUninit];
    match family {
        Family::Life => {
            for start in 0..nv {
                for ctor in ctors {
                    for place in places {
                        for fill in [false, true] {
                            if fill && !ctor.is_uninit() {
                                continue;
                            }
                            for end_v in start..nv {
                                for forms in form_chains(end_v - start) {
                                    for write_between in [false, true] {
                                        if write_between && forms.is_empty() {
                                            continue;
                                        }
                                        for end in [End::Drop, End::Unpack] {
                                            out.push(PathSpec::Life { start, ctor, place, fill, write_between, forms: forms.clone(), end });
                                        }
                                    }
                                }
                            }
                        }
                    }
                }
            }
        }
        Family::Writes => {
            for (k, v) in meta.variants.iter().enumerate() {
                let mut opsets: Vec<Vec<(bool, usize)>> = vec![];
                let singles: Vec<(bool, usize)> = v.fields.iter().flat_map(|d| [(false, *d), (true, *d)]).collect();
                for a in &singles {
                    opsets.push(vec![*a]);
                    for b in &singles {
                        opsets.push(vec![*a, *b]);
                    }
                }
                for ops in opsets {
                    for (ctor, place, end) in [(Ctor::New, Placement::Inline, End::Unpack), (Ctor::NewUninit, Placement::Boxed, End::Drop), (Ctor::FromFull, Placement::InVec, End::Drop)] {
                        out.push(PathSpec::Writes { variant: k, ctor, place, ops: ops.clone(), end });
                    }
                }
            }
        }
        Family::Clone => {
            for (k, v) in meta.variants.iter().enumerate() {
                let mut scen = vec![CloneScenario::DropSourceFirst, CloneScenario::DropCloneFirst, CloneScenario::CloneFrom, CloneScenario::CloneFromSelfShape];
                for d in &v.fields {
                    scen.push(CloneScenario::MutateSource(*d));
                    scen.push(CloneScenario::MutateClone(*d));
                }
                let droppable = v.fields.iter().filter(|d| meta.data[**d].droppable).count();
                for n in 1..=droppable + 1 {
                    scen.push(CloneScenario::PanicInClone(n));
                    scen.push(CloneScenario::PanicInCloneFrom(n));
                }
                for s in scen {
                    for (ctor, place) in [(Ctor::New, Placement::Inline), (Ctor::NewUninit, Placement::Boxed), (Ctor::FromFull, Placement::InVec)] {
                        out.push(PathSpec::Clone { variant: k, ctor, place, scenario: s.clone() });
                    }
                }
            }
        }
        Family::Serde => {
            for (k, v) in meta.variants.iter().enumerate() {
                let n = v.fields.len();
                let mut scen = vec![SerdeScenario::JsonRoundTrip, SerdeScenario::BincodeRoundTrip, SerdeScenario::JsonExtraElement, SerdeScenario::JsonValueRoundTrip, SerdeScenario::JsonValueExtraElement];
                for p in 0..n {
                    scen.push(SerdeScenario::JsonValueTruncated(p));
                    scen.push(SerdeScenario::JsonValueUndecodable(p));
                    scen.push(SerdeScenario::JsonTruncated(p));
                    scen.push(SerdeScenario::JsonUndecodable(p));
                    scen.push(SerdeScenario::JsonWrongType(p));
                    scen.push(SerdeScenario::BincodeTruncated(p));
                    scen.push(SerdeScenario::BincodeUndecodable(p));
                }
                for s in scen {
                    out.push(PathSpec::Serde { variant: k, scenario: s });
                }
            }
        }
    }
    out
}

#[derive(Clone, Debug)]
pub struct Finding {
    pub prop: &'static str,
    pub key: String,
    pub what: String,
}

#[derive(Default, Debug)]
pub struct PathOutcome {
    pub findings: Vec<Finding>,
    pub ops: u64,
    pub reads: u64,
    pub states: BTreeSet<String>,
    pub log: Vec<String>,
    pub poisoned: bool,
}

#[derive(Clone, Debug)]
struct ModelRec {
    variant: usize,
    place: Placement,
    vals: BTreeMap<usize, Option<Tok>>,
}

struct Run<'g> {
    g: &'g mut dyn Glue,
    meta: Meta,
    model: [Option<ModelRec>; 2],
    next_tok: Tok,
    out: PathOutcome,
    conversions: usize,
    /// imbalance of live values already reported on this path: later operations are judged on
    /// what *they* add to it, so that a defect of a constructor does not hide one of a clone
    live_bias: isize,
    zst_bias: isize,
}

impl<'g> Run<'g> {
    fn new(g: &'g mut dyn Glue) -> Self {
        let meta = g.meta().clone();
        ledger::reset();
        let _ = hook_events();
        Run { g, meta, model: [None, None], next_tok: 11, out: PathOutcome::default(), conversions: 0, live_bias: 0, zst_bias: 0 }
    }

    fn tok(&mut self) -> Tok {
        self.next_tok += 1;
        if self.next_tok >= 250 {
            self.next_tok = 11;
        }
        self.next_tok
    }

    fn find(&mut self, prop: &'static str, key: String, what: String) {
        let ctx = self.out.log.join(" ; ");
        self.out.findings.push(Finding { prop, key, what: format!("{} [path: {}]", what, ctx) });
    }

    fn expect_val(&self, d: usize, tok: Tok) -> Tok {
        if self.meta.data[d].zst {
            0
        } else {
            tok
        }
    }

    /// Drains the fail-loud oracles after an operation.
    fn after_op(&mut self, op: &str, ledger_prop: &'static str) {
        self.out.ops += 1;
        for e in hook_events() {
            let kind = e.split(':').next().unwrap_or("event").split("::").next().unwrap_or("event").trim().replace(' ', "-");
            self.find("C07", format!("C07/hook/{}/{}", kind, op), format!("storage hook after {}: {}", op, e));
        }
        let errs = ledger::errors();
        if !errs.is_empty() && !self.out.poisoned {
            self.out.poisoned = true;
            let kind = if errs[0].contains("double drop") { "double-drop" } else { "bad-drop" };
            self.find(ledger_prop, format!("{}/{}/{}", ledger_prop, kind, op), format!("after {}: {}", op, errs.join("; ")));
        }
        // number of live instrumented values (all of them, and the zero-size ones on their own)
        if !self.out.poisoned {
            let (mut want, mut want_zst) = (0isize, 0isize);
            for m in self.model.iter().flatten() {
                let k = if m.place == Placement::InVec { 2 } else { 1 };
                let fields = &self.meta.variants[m.variant].fields;
                want += k * fields.iter().filter(|d| self.meta.data[**d].droppable).count() as isize;
                want_zst += k * fields.iter().filter(|d| self.meta.data[**d].droppable && self.meta.data[**d].zst).count() as isize;
            }
            let got = ledger::live_count() as isize;
            let got_zst: isize = ledger::summary().zst_live.iter().map(|(_, n)| (*n).max(0) as isize).sum();
            if got - self.live_bias != want {
                let kind = if got - self.live_bias > want { "leak" } else { "destroyed-early" };
                self.find(
                    ledger_prop,
                    format!("{}/{}/{}", ledger_prop, kind, op),
                    format!("after {}: {} instrumented values are alive, the records hold {}{}; {}", op, got, want, if self.live_bias != 0 { format!(" (an imbalance of {} was reported earlier on this path)", self.live_bias) } else { String::new() }, ledger::summary().describe()),
                );
                // later operations are judged on what they add to the imbalance
                self.live_bias = got - want;
            }
            // a zero-size value occupies no byte, so the storage shadow cannot see it: a record that
            // holds such a value which is already destroyed will read a dead value when it is next
            // unpacked, converted or dropped
            if got_zst - self.zst_bias < want_zst {
                self.find(
                    "C07",
                    format!("C07/zero-size-value-dead-while-held/{}", op),
                    format!("after {}: the records hold {} zero-size droppable values, {} are alive: a value that was never stored, or was moved out, will be read; {}", op, want_zst, got_zst, ledger::summary().describe()),
                );
            }
            self.zst_bias = got_zst - want_zst;
        }
        for m in self.model.iter().flatten() {
            let uninit: Vec<usize> = m.vals.iter().filter(|(_, v)| v.is_none()).map(|(d, _)| *d).collect();
            self.out.states.insert(format!("v{}/{:?}/uninit{:?}/cap+{}", m.variant, m.place, uninit, self.g.cap() - self.meta.max_size));
        }
    }

    fn construct(&mut self, slot: usize, place: Placement, variant: usize, ctor: Ctor) {
        let fields = self.meta.variants[variant].fields.clone();
        let vals: Vec<Tok> = fields.iter().map(|_| self.tok()).collect();
        self.out.log.push(format!("slot{} = Record{}::{:?}({:?}) {:?}", slot, variant, ctor, vals, place));
        self.g.construct(slot, place, variant, ctor, &vals);
        let mut m = BTreeMap::new();
        for (i, d) in fields.iter().enumerate() {
            let init = !(ctor.is_uninit() && self.meta.data[*d].uninit);
            m.insert(*d, init.then_some(vals[i]));
        }
        self.model[slot] = Some(ModelRec { variant, place, vals: m });
        self.after_op(&format!("{:?}", ctor), "C06");
        self.verify(slot, "C04", &format!("value/after-{:?}", ctor));
        // the record must sit at an address aligned for the record type
        let addr = self.g.addr(slot);
        let align = self.meta.declared_max_align;
        if align > 0 && addr % align != 0 {
            self.find("C07", "C07/record-address-misaligned".into(), format!("record at {:#x} is not aligned to {}", addr, align));
        }
    }

    /// Reads every initialised field back and compares with the model.
    fn verify(&mut self, slot: usize, prop: &'static str, key: &str) {
        let m = match &self.model[slot] {
            Some(m) => m.clone(),
            None => return,
        };
        for (d, v) in &m.vals {
            if let Some(tok) = v {
                let got = self.g.get(slot, *d);
                self.out.reads += 1;
                let want = self.expect_val(*d, *tok);
                if got != want {
                    let shown = match got {
                        u64::MAX => "a value whose instance is not alive".to_owned(),
                        x if x == u64::MAX - 1 => "clobbered bytes".to_owned(),
                        x => x.to_string(),
                    };
                    self.find(prop, format!("{}/{}", prop, key), format!("field {} ({}) of slot{} reads {}, expected {}", self.meta.data[*d].name, self.meta.data[*d].ty, slot, shown, want));
                    break;
                }
            }
        }
        self.after_op("read-back", "C06");
    }

    fn fill(&mut self, slot: usize) {
        let m = self.model[slot].clone().unwrap();
        for (d, v) in &m.vals {
            if v.is_none() {
                let t = self.tok();
                self.out.log.push(format!("slot{}.{} = {}", slot, self.meta.data[*d].name, t));
                self.g.set(slot, *d, t);
                self.model[slot].as_mut().unwrap().vals.insert(*d, Some(t));
                self.after_op("write-uninit-field", "C06");
            }
        }
        self.verify(slot, "C04", "value/after-initialising-write");
    }

    fn write(&mut self, slot: usize, d: usize, in_place: bool) {
        let t = self.tok();
        let initialised = self.model[slot].as_ref().unwrap().vals[&d].is_some();
        if in_place && !initialised {
            // modifying an uninitialised value in place is not a defined operation: assign
            self.out.log.push(format!("slot{}.{} = {}", slot, self.meta.data[d].name, t));
            self.g.set(slot, d, t);
        } else if in_place {
            self.out.log.push(format!("slot{}.{}_mut().set({})", slot, self.meta.data[d].name, t));
            self.g.poke(slot, d, t);
        } else {
            self.out.log.push(format!("slot{}.{} = {}", slot, self.meta.data[d].name, t));
            self.g.set(slot, d, t);
        }
        self.model[slot].as_mut().unwrap().vals.insert(d, Some(t));
        self.after_op(if in_place { "write-in-place" } else { "write-assign" }, "C06");
        self.verify(slot, "C04", if in_place { "value/after-in-place-write" } else { "value/after-assignment" });
    }

    fn convert(&mut self, slot: usize, form: Form) {
        let m = self.model[slot].clone().unwrap();
        let k = m.variant;
        let next = self.meta.variants[k + 1].clone();
        let plus: Vec<Tok> = next.plus.iter().map(|_| self.tok()).collect();
        // instances of the removed droppable fields, to recognise them when handed back
        let mut removed_ids = BTreeMap::new();
        for d in &next.minus {
            if m.vals[d].is_some() && self.meta.data[*d].droppable && !self.meta.data[*d].zst {
                removed_ids.insert(*d, self.g.get_id(slot, *d));
            }
        }
        let _ = hook_events();
        self.out.log.push(format!("slot{} -> Record{} via {:?} (+{:?})", slot, k + 1, form, plus));
        let res = catch_unwind(AssertUnwindSafe(|| self.g.convert(slot, form, &plus)));
        let returned = match res {
            Ok(r) => r,
            Err(p) => {
                let msg = vcommon::panic_message(&*p);
                let prop = if msg.contains("size_of") || msg.contains("align_of") { "C03" } else { "C05" };
                self.find(prop, format!("{}/conversion-panicked/{:?}", prop, form), format!("conversion of Record{} to Record{} ({:?}, {:?}) panicked: {}", k, k + 1, form, m.place, msg));
                self.model[slot] = None;
                self.out.poisoned = true;
                return;
            }
        };
        self.conversions += 1;
        let mut vals = BTreeMap::new();
        for d in &next.fields {
            if let Some(v) = m.vals.get(d) {
                vals.insert(*d, *v);
            }
        }
        for (i, d) in next.plus.iter().enumerate() {
            let init = !(form.is_uninit() && self.meta.data[*d].uninit);
            vals.insert(*d, init.then_some(plus[i]));
        }
        self.model[slot] = Some(ModelRec { variant: k + 1, place: m.place, vals });
        // handed back
        if form.is_out() {
            let want_ids: Vec<usize> = next.minus.clone();
            let got_ids: Vec<usize> = returned.iter().map(|r| r.0).collect();
            if got_ids != want_ids {
                self.find("C05", format!("C05/returned-set/{:?}", form), format!("conversion handed back fields {:?}, the removed fields are {:?}", got_ids, want_ids));
            } else {
                for (d, tok, _id) in &returned {
                    if let Some(v) = m.vals[d] {
                        let want = self.expect_val(*d, v);
                        if *tok != want {
                            self.find("C05", format!("C05/returned-value/{:?}", form), format!("removed field {} handed back with value {}, it held {}", self.meta.data[*d].name, tok, want));
                            break;
                        }
                    }
                }
            }
        } else if !returned.is_empty() {
            self.find("C05", format!("C05/returned-set/{:?}", form), "a form without returned data handed back values".into());
        }
        self.after_op(&format!("convert-{:?}", form), "C06");
        // carried-over and added values
        let now = self.model[slot].clone().unwrap();
        for (d, v) in &now.vals {
            if let Some(tok) = v {
                let got = self.g.get(slot, *d);
                self.out.reads += 1;
                let want = self.expect_val(*d, *tok);
                if got != want {
                    let kind = if next.plus.contains(d) { "added" } else { "carried-over" };
                    self.find("C05", format!("C05/{}-value/{:?}", kind, form), format!("after converting Record{} to Record{} via {:?}: {} field {} ({}) reads {}, expected {}", k, k + 1, form, kind, self.meta.data[*d].name, self.meta.data[*d].ty, got, want));
                    break;
                }
            }
        }
        self.after_op("read-back", "C06");
    }

    fn end(&mut self, slot: usize, end: End) {
        let m = match self.model[slot].clone() {
            Some(m) => m,
            None => return,
        };
        match end {
            End::Drop => {
                self.out.log.push(format!("drop(slot{})", slot));
                self.g.drop_slot(slot);
                self.model[slot] = None;
                self.after_op("drop", "C06");
            }
            End::Unpack => {
                self.out.log.push(format!("slot{}.unpack()", slot));
                let got = self.g.unpack(slot);
                self.model[slot] = None;
                let want: Vec<usize> = self.meta.variants[m.variant].fields.clone();
                let got_ids: Vec<usize> = got.iter().map(|r| r.0).collect();
                if got_ids != want {
                    self.find("C04", "C04/unpack-fields".into(), format!("unpack returned fields {:?}, the variant holds {:?}", got_ids, want));
                }
                for (d, tok, _) in &got {
                    if let Some(Some(v)) = m.vals.get(d) {
                        let w = self.expect_val(*d, *v);
                        if *tok != w {
                            self.find("C04", "C04/value/unpack".into(), format!("unpack returned {} for field {} ({}), expected {}", tok, self.meta.data[*d].name, self.meta.data[*d].ty, w));
                            break;
                        }
                    }
                }
                self.after_op("unpack", "C06");
            }
        }
    }

    fn finish(mut self) -> PathOutcome {
        // end of the path: everything must be gone
        for slot in 0..2 {
            if self.model[slot].is_some() {
                self.g.drop_slot(slot);
                self.model[slot] = None;
            }
        }
        self.after_op("end-of-path", "C06");
        self.out
    }
}

fn first_writable(meta: &Meta, variant: usize) -> Option<usize> {
    meta.variants[variant].fields.first().copied()
}

pub fn run_path(g: &mut dyn Glue, spec: &PathSpec) -> PathOutcome {
    let mut r = Run::new(g);
    match spec {
        PathSpec::Life { start, ctor, place, fill, write_between, forms, end } => {
            r.construct(0, *place, *start, *ctor);
            if *fill {
                r.fill(0);
            }
            for (i, f) in forms.iter().enumerate() {
                if r.model[0].is_none() {
                    break;
                }
                if *write_between {
                    let v = r.model[0].as_ref().unwrap().variant;
                    let fields = r.meta.variants[v].fields.clone();
                    if !fields.is_empty() {
                        let d = fields[i % fields.len()];
                        r.write(0, d, i % 2 == 1);
                    }
                }
                r.convert(0, *f);
            }
            r.end(0, *end);
        }
        PathSpec::Writes { variant, ctor, place, ops, end } => {
            r.construct(0, *place, *variant, *ctor);
            for (in_place, d) in ops {
                r.write(0, *d, *in_place);
            }
            r.end(0, *end);
        }
        PathSpec::Clone { variant, ctor, place, scenario } => run_clone(&mut r, *variant, *ctor, *place, scenario),
        PathSpec::Serde { variant, scenario } => run_serde(&mut r, *variant, scenario),
    }
    r.finish()
}

fn verify_pair(r: &mut Run, what: &str) {
    r.verify(0, "C16", &format!("value/source-{}", what));
    r.verify(1, "C16", &format!("value/copy-{}", what));
}

fn run_clone(r: &mut Run, variant: usize, ctor: Ctor, place: Placement, scenario: &CloneScenario) {
    r.construct(0, place, variant, ctor);
    let src_model = r.model[0].clone().unwrap();
    let droppable: Vec<usize> = r.meta.variants[variant].fields.iter().copied().filter(|d| r.meta.data[*d].droppable && !r.meta.data[*d].zst).collect();
    // a clone reads every field: only defined when everything is initialised
    if ctor.is_uninit() {
        r.fill(0);
    }
    let src_model = { let _ = src_model; r.model[0].clone().unwrap() };
    let do_clone = |r: &mut Run| {
        r.out.log.push("slot1 = slot0.clone()".into());
        r.g.clone_into(0, 1);
        r.model[1] = Some(ModelRec { variant, place: Placement::Inline, vals: src_model.vals.clone() });
        r.after_op("clone", "C16");
        // independence: no droppable instance is shared
        for d in &droppable {
            let (a, b) = (r.g.get_id(0, *d), r.g.get_id(1, *d));
            if a == b {
                r.find("C16", "C16/shared-instance/clone".into(), format!("field {} of the clone is the very instance #{} the source holds", r.meta.data[*d].name, a));
            }
        }
    };
    match scenario {
        CloneScenario::DropSourceFirst => {
            do_clone(r);
            verify_pair(r, "after-clone");
            r.end(0, End::Drop);
            r.verify(1, "C16", "value/copy-after-source-dropped");
            r.end(1, End::Unpack);
        }
        CloneScenario::DropCloneFirst => {
            do_clone(r);
            verify_pair(r, "after-clone");
            r.end(1, End::Drop);
            r.verify(0, "C16", "value/source-after-copy-dropped");
            r.end(0, End::Unpack);
        }
        CloneScenario::MutateSource(d) => {
            do_clone(r);
            r.write(0, *d, false);
            r.write(0, *d, true);
            verify_pair(r, "after-source-mutated");
            r.end(0, End::Drop);
            r.end(1, End::Drop);
        }
        CloneScenario::MutateClone(d) => {
            do_clone(r);
            r.write(1, *d, true);
            r.write(1, *d, false);
            verify_pair(r, "after-copy-mutated");
            r.end(1, End::Drop);
            r.end(0, End::Drop);
        }
        CloneScenario::CloneFrom | CloneScenario::CloneFromSelfShape => {
            let p2 = if *scenario == CloneScenario::CloneFrom { Placement::Inline } else { place };
            r.construct(1, p2, variant, Ctor::New);
            let before: Vec<(usize, u64)> = droppable.iter().map(|d| (*d, r.g.get_id(1, *d))).collect();
            r.out.log.push("slot1.clone_from(&slot0)".into());
            r.g.clone_from_slot(1, 0);
            r.model[1].as_mut().unwrap().vals = src_model.vals.clone();
            r.after_op("clone_from", "C16");
            verify_pair(r, "after-clone_from");
            for (d, old) in before {
                // the previous contents are gone (destroyed exactly once is the ledger's verdict)
                if ledger::is_live(old) && r.g.get_id(1, d) != old {
                    r.find("C16", "C16/previous-contents-alive/clone_from".into(), format!("the target's previous {} (instance #{}) is still alive after clone_from", r.meta.data[d].name, old));
                }
                if r.g.get_id(1, d) == r.g.get_id(0, d) {
                    r.find("C16", "C16/shared-instance/clone_from".into(), format!("after clone_from, field {} of the target is the very instance the source holds", r.meta.data[d].name));
                }
            }
            r.end(0, End::Drop);
            r.verify(1, "C16", "value/copy-after-source-dropped");
            r.end(1, End::Unpack);
        }
        CloneScenario::PanicInClone(n) => {
            ledger::arm_clone_panic(*n as i64);
            r.out.log.push(format!("slot1 = slot0.clone() with the {}-th field clone panicking", n));
            let res = catch_unwind(AssertUnwindSafe(|| r.g.clone_into(0, 1)));
            ledger::arm_clone_panic(0);
            match res {
                Ok(()) => {
                    r.model[1] = Some(ModelRec { variant, place: Placement::Inline, vals: src_model.vals.clone() });
                }
                Err(p) => {
                    if p.downcast_ref::<vtypes::HarnessPanic>().is_none() {
                        r.find("C16", "C16/unexpected-panic/clone".into(), format!("clone panicked with a foreign payload: {}", vcommon::panic_message(&*p)));
                    }
                }
            }
            r.after_op("clone-with-panic", "C16");
            verify_pair(r, "after-panicking-clone");
            r.end(1, End::Drop);
            r.end(0, End::Drop);
        }
        CloneScenario::PanicInCloneFrom(n) => {
            r.construct(1, Placement::Inline, variant, Ctor::New);
            let old_model = r.model[1].clone().unwrap();
            ledger::arm_clone_panic(*n as i64);
            r.out.log.push(format!("slot1.clone_from(&slot0) with the {}-th field clone panicking", n));
            let res = catch_unwind(AssertUnwindSafe(|| r.g.clone_from_slot(1, 0)));
            ledger::arm_clone_panic(0);
            match res {
                Ok(()) => {
                    r.model[1].as_mut().unwrap().vals = src_model.vals.clone();
                    r.after_op("clone_from-with-panic", "C16");
                    verify_pair(r, "after-clone_from");
                }
                Err(_) => {
                    // the target is a mixture of old and new values: every field must hold one of
                    // the two, and nothing may be lost or destroyed twice
                    r.after_op("clone_from-with-panic", "C16");
                    r.verify(0, "C16", "value/source-after-panicking-clone_from");
                    for d in r.meta.variants[variant].fields.clone() {
                        let got = r.g.get(1, d);
                        let a = old_model.vals[&d].map(|t| r.expect_val(d, t));
                        let b = src_model.vals[&d].map(|t| r.expect_val(d, t));
                        if Some(got) != a && Some(got) != b {
                            r.find("C16", "C16/value/target-after-panicking-clone_from".into(), format!("field {} of the target reads {}, neither its old value {:?} nor the source's {:?}", r.meta.data[d].name, got, a, b));
                        }
                    }
                }
            }
            r.end(1, End::Drop);
            r.end(0, End::Drop);
        }
    }
}

fn json_of(vals: &[Tok]) -> String {
    format!("[{}]", vals.iter().map(|v| v.to_string()).collect::<Vec<_>>().join(","))
}

fn run_serde(r: &mut Run, variant: usize, scenario: &SerdeScenario) {
    r.construct(0, Placement::Inline, variant, Ctor::New);
    // the encoding follows the declaration order
    let fields = r.meta.variants[variant].declared.clone();
    let m = r.model[0].clone().unwrap();
    let toks: Vec<Tok> = fields.iter().map(|d| r.expect_val(*d, m.vals[d].unwrap())).collect();
    let n = fields.len();
    let bincode_of = |vals: &[Tok]| -> Vec<u8> { vals.iter().flat_map(|v| v.to_le_bytes()).collect() };
    let decoded_model = |r: &Run| -> ModelRec {
        let mut vals = BTreeMap::new();
        for (i, d) in fields.iter().enumerate() {
            vals.insert(*d, Some(if r.meta.data[*d].zst { 0 } else { toks[i] }));
        }
        ModelRec { variant, place: Placement::Inline, vals }
    };
    match scenario {
        SerdeScenario::JsonRoundTrip | SerdeScenario::JsonValueRoundTrip => {
            let via_value = *scenario == SerdeScenario::JsonValueRoundTrip;
            r.out.log.push(if via_value { "serde_json::to_value(&slot0)".into() } else { "serde_json::to_string(&slot0)".into() });
            match if via_value { r.g.to_json_value(0) } else { r.g.to_json(0) } {
                Ok(text) => {
                    let want = json_of(&toks);
                    if text != want {
                        r.find("C15", "C15/json-encoding".into(), format!("record serialised as {}, its fields in declaration order are {}", text, want));
                    }
                    r.after_op("to_json", "C15");
                    r.out.log.push(format!("slot1 = serde_json::{}({:?})", if via_value { "from_value" } else { "from_str" }, text));
                    match if via_value { r.g.from_json_value(1, variant, &text) } else { r.g.from_json(1, variant, &text) } {
                        Ok(()) => {
                            r.model[1] = Some(decoded_model(r));
                            r.after_op("from_json", "C15");
                            r.verify(1, "C15", "json-round-trip-value");
                        }
                        Err(e) => r.find("C15", "C15/json-round-trip-rejected".into(), format!("the record's own JSON {} is rejected: {}", text, e)),
                    }
                }
                Err(e) => r.find("C15", "C15/json-serialise-failed".into(), e),
            }
        }
        SerdeScenario::BincodeRoundTrip => {
            r.out.log.push("bincode::serialize(&slot0)".into());
            match r.g.to_bincode(0) {
                Ok(bytes) => {
                    let want = bincode_of(&toks);
                    if bytes != want {
                        r.find("C15", "C15/bincode-encoding".into(), format!("record serialised as {:?}, its fields in declaration order give {:?}", bytes, want));
                    }
                    r.after_op("to_bincode", "C15");
                    match r.g.from_bincode(1, variant, &bytes) {
                        Ok(()) => {
                            r.model[1] = Some(decoded_model(r));
                            r.after_op("from_bincode", "C15");
                            r.verify(1, "C15", "bincode-round-trip-value");
                        }
                        Err(e) => r.find("C15", "C15/bincode-round-trip-rejected".into(), format!("the record's own encoding is rejected: {}", e)),
                    }
                }
                Err(e) => r.find("C15", "C15/bincode-serialise-failed".into(), e),
            }
        }
        other => {
            // reference input = what the model says the encoding is
            let via_value = matches!(other, SerdeScenario::JsonValueTruncated(_) | SerdeScenario::JsonValueUndecodable(_) | SerdeScenario::JsonValueExtraElement);
            let (json, bytes, name): (Option<String>, Option<Vec<u8>>, String) = match other {
                SerdeScenario::JsonValueTruncated(p) => (Some(json_of(&toks[..*p])), None, format!("json-value-truncated-to-{}", p)),
                SerdeScenario::JsonValueUndecodable(p) => {
                    let mut t = toks.clone();
                    t[*p] = vtypes::POISON_TOK;
                    (Some(json_of(&t)), None, format!("json-value-undecodable-at-{}", p))
                }
                SerdeScenario::JsonValueExtraElement => {
                    let mut t = toks.clone();
                    t.push(7);
                    (Some(json_of(&t)), None, "json-value-extra-element".to_owned())
                }
                SerdeScenario::JsonTruncated(p) => (Some(json_of(&toks[..*p])), None, format!("json-truncated-to-{}", p)),
                SerdeScenario::JsonUndecodable(p) => {
                    let mut t = toks.clone();
                    t[*p] = vtypes::POISON_TOK;
                    (Some(json_of(&t)), None, format!("json-undecodable-at-{}", p))
                }
                SerdeScenario::JsonWrongType(p) => {
                    let parts: Vec<String> = toks.iter().enumerate().map(|(i, v)| if i == *p { "\"x\"".to_owned() } else { v.to_string() }).collect();
                    (Some(format!("[{}]", parts.join(","))), None, format!("json-wrong-type-at-{}", p))
                }
                SerdeScenario::JsonExtraElement => {
                    let mut t = toks.clone();
                    t.push(7);
                    (Some(json_of(&t)), None, "json-extra-element".to_owned())
                }
                SerdeScenario::BincodeTruncated(p) => (None, Some(bincode_of(&toks[..*p])), format!("bincode-truncated-to-{}", p)),
                SerdeScenario::BincodeUndecodable(p) => {
                    let mut t = toks.clone();
                    t[*p] = vtypes::POISON_TOK;
                    (None, Some(bincode_of(&t)), format!("bincode-undecodable-at-{}", p))
                }
                _ => unreachable!(),
            };
            let _ = n;
            r.out.log.push(format!("slot1 = decode({})", name));
            let res = match (&json, &bytes) {
                (Some(j), _) if via_value => catch_unwind(AssertUnwindSafe(|| r.g.from_json_value(1, variant, j))),
                (Some(j), _) => catch_unwind(AssertUnwindSafe(|| r.g.from_json(1, variant, j))),
                (_, Some(b)) => catch_unwind(AssertUnwindSafe(|| r.g.from_bincode(1, variant, b))),
                _ => unreachable!(),
            };
            let kind = name.split("-at-").next().unwrap().split("-to-").next().unwrap().to_owned();
            match res {
                Ok(Err(_)) => {}
                Ok(Ok(())) => {
                    r.find("C15", format!("C15/bad-input-accepted/{}", kind), format!("input {} was decoded into a record instead of being rejected", json.clone().unwrap_or_else(|| format!("{:?}", bytes))));
                    // whatever was built must at least be destroyed
                    r.g.drop_slot(1);
                }
                Err(p) => {
                    r.find("C15", format!("C15/decode-panicked/{}", kind), format!("decoding {} panicked: {}", name, vcommon::panic_message(&*p)));
                }
            }
            r.after_op(&format!("decode-{}", kind), "C15");
        }
    }
    r.end(1, End::Drop);
    r.verify(0, "C15", "source-after-serde");
    r.end(0, End::Drop);
}
