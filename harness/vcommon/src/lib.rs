//! Shared plumbing of the verification engines: arguments, evidence, known findings,
//! replay files, and the crash-isolating parent/child case runner.
//!
//! Exit codes of every engine: 0 = property held on everything explored (known findings
//! are printed and do not change that), 1 = at least one unlisted violation (a
//! `VIOLATION property=<id> replay=<path>` line per reported one), 2 = machinery error.

use std::{
    collections::{BTreeMap, BTreeSet},
    io::{BufRead, BufReader, Write},
    path::{Path, PathBuf},
    process::{Command, Stdio},
    time::Instant,
};

pub use serde_json::{json, Map, Value};

pub fn verif_root() -> PathBuf {
    std::env::var_os("VERIF_ROOT")
        .map(PathBuf::from)
        .unwrap_or_else(|| PathBuf::from("/verif"))
}

#[derive(Clone, Copy, PartialEq, Eq, Debug)]
pub enum Tier {
    Quick,
    Thorough,
}

impl Tier {
    pub fn as_str(self) -> &'static str {
        match self {
            Tier::Quick => "quick",
            Tier::Thorough => "thorough",
        }
    }
}

#[derive(Clone, Debug)]
pub struct Args {
    pub property: String,
    pub tier: Tier,
    pub seed: u64,
    pub replay: Option<PathBuf>,
    /// `--child` payload (engine specific), present in child processes only.
    pub child: Option<String>,
    pub rest: Vec<String>,
}

/// `<engine> <PROPERTY> [quick|thorough] [--replay <file>] [--child <spec>] [other...]`
pub fn parse_args() -> Args {
    let mut it = std::env::args().skip(1);
    let property = it.next().unwrap_or_else(|| machinery_error("missing property id"));
    let mut tier = match std::env::var("VERIF_TIER").ok().as_deref() {
        Some("thorough") => Tier::Thorough,
        _ => Tier::Quick,
    };
    let seed = std::env::var("VERIF_SEED")
        .ok()
        .and_then(|s| s.parse::<u64>().ok())
        .unwrap_or(0);
    let mut replay = None;
    let mut child = None;
    let mut rest = Vec::new();
    while let Some(a) = it.next() {
        match a.as_str() {
            "quick" => tier = Tier::Quick,
            "thorough" => tier = Tier::Thorough,
            "--replay" => replay = Some(PathBuf::from(it.next().expect("--replay <file>"))),
            "--child" => child = Some(it.next().expect("--child <spec>")),
            _ => rest.push(a),
        }
    }
    Args {
        property,
        tier,
        seed,
        replay,
        child,
        rest,
    }
}

pub fn machinery_error(msg: &str) -> ! {
    println!("MACHINERY-ERROR: {}", msg);
    eprintln!("MACHINERY-ERROR: {}", msg);
    std::process::exit(2)
}

#[derive(Clone, Debug)]
pub struct Violation {
    /// Canonical identification, matched exactly against known_findings.json.
    pub key: String,
    pub what: String,
    /// The failing case (history, operation list, input...), replayable.
    pub case: Value,
}

impl Violation {
    pub fn new(key: impl Into<String>, what: impl Into<String>, case: Value) -> Self {
        Self {
            key: key.into(),
            what: what.into(),
            case,
        }
    }
    pub fn to_json(&self) -> Value {
        json!({"key": self.key, "what": self.what, "case": self.case})
    }
    pub fn from_json(v: &Value) -> Self {
        Self {
            key: v["key"].as_str().unwrap_or("?").to_owned(),
            what: v["what"].as_str().unwrap_or("?").to_owned(),
            case: v["case"].clone(),
        }
    }
}

#[derive(Default)]
pub struct KnownFindings {
    /// (property, key) -> what
    known: BTreeMap<(String, String), String>,
}

impl KnownFindings {
    pub fn load() -> Self {
        let path = verif_root().join("known_findings.json");
        let mut known = BTreeMap::new();
        if let Ok(text) = std::fs::read_to_string(&path) {
            let v: Value = serde_json::from_str(&text)
                .unwrap_or_else(|e| machinery_error(&format!("known_findings.json: {}", e)));
            for f in v["findings"].as_array().cloned().unwrap_or_default() {
                // `fixed` entries suppress nothing.
                if f["status"].as_str() == Some("known") {
                    known.insert(
                        (
                            f["property"].as_str().unwrap_or("").to_owned(),
                            f["key"].as_str().unwrap_or("").to_owned(),
                        ),
                        f["what"].as_str().unwrap_or("").to_owned(),
                    );
                }
            }
        }
        Self { known }
    }
    pub fn is_known(&self, property: &str, key: &str) -> bool {
        self.known
            .contains_key(&(property.to_owned(), key.to_owned()))
    }
}

pub struct Report {
    pub engine: String,
    pub property: String,
    pub level: String,
    pub tier: Tier,
    pub seed: u64,
    pub start: Instant,
    pub coverage: Map<String, Value>,
    pub assumptions: Vec<String>,
    pub violations: Vec<Violation>,
    /// Total number of violating cases observed (may exceed `violations.len()`, which is capped).
    pub violations_total: u64,
    /// Second engine of a two-engine check: replay files get this tag and the evidence written
    /// just before by the first engine is merged in (counts summed, its coverage kept as `part_a`).
    pub merge_tag: Option<String>,
}

pub const MAX_KEPT_VIOLATIONS: usize = 200;

impl Report {
    pub fn new(engine: &str, args: &Args, level: &str) -> Self {
        Self {
            engine: engine.to_owned(),
            property: args.property.clone(),
            level: level.to_owned(),
            tier: args.tier,
            seed: args.seed,
            start: Instant::now(),
            coverage: Map::new(),
            assumptions: Vec::new(),
            violations: Vec::new(),
            violations_total: 0,
            merge_tag: None,
        }
    }

    pub fn cov(&mut self, key: &str, v: impl Into<Value>) -> &mut Self {
        self.coverage.insert(key.to_owned(), v.into());
        self
    }

    pub fn assume(&mut self, s: &str) -> &mut Self {
        self.assumptions.push(s.to_owned());
        self
    }

    pub fn add(&mut self, v: Violation) {
        self.violations_total += 1;
        if self.violations.len() < MAX_KEPT_VIOLATIONS {
            self.violations.push(v);
        }
    }

    /// Writes the evidence file, replay files and verdict lines; returns the exit code.
    pub fn finish(mut self) -> i32 {
        let root = verif_root();
        let known = KnownFindings::load();
        let mut known_hits: BTreeMap<String, (u64, String)> = BTreeMap::new();
        let mut unlisted: Vec<&Violation> = Vec::new();
        for v in &self.violations {
            if known.is_known(&self.property, &v.key) {
                let e = known_hits
                    .entry(v.key.clone())
                    .or_insert((0, v.what.clone()));
                e.0 += 1;
            } else {
                unlisted.push(v);
            }
        }
        for (key, (n, what)) in &known_hits {
            println!(
                "KNOWN-FINDING: property={} key={} occurrences={} {}",
                self.property, key, n, what
            );
        }
        // One replay file per distinct key (the first = shortest case met), at most 10 lines.
        let replay_dir = root.join("replays");
        let _ = std::fs::create_dir_all(&replay_dir);
        let mut seen_keys = BTreeSet::new();
        let mut n_reported = 0;
        for v in &unlisted {
            if !seen_keys.insert(v.key.clone()) {
                continue;
            }
            if n_reported >= 10 {
                break;
            }
            let path = replay_dir.join(format!(
                "{}{}-{}.json",
                self.property,
                self.merge_tag.as_deref().unwrap_or(""),
                n_reported
            ));
            let doc = json!({
                "engine": self.engine,
                "property": self.property,
                "key": v.key,
                "what": v.what,
                "case": v.case,
            });
            std::fs::write(&path, serde_json::to_string_pretty(&doc).unwrap())
                .unwrap_or_else(|e| machinery_error(&format!("cannot write replay: {}", e)));
            println!(
                "VIOLATION property={} replay={} key={} :: {}",
                self.property,
                path.display(),
                v.key,
                v.what
            );
            n_reported += 1;
        }
        let mut unlisted_n = unlisted.len();
        let mut wall = self.start.elapsed().as_secs_f64();
        let ev_path0 = root.join("evidence").join(format!("{}.json", self.property));
        if self.merge_tag.is_some() {
            let old: Value = std::fs::read_to_string(&ev_path0)
                .ok()
                .and_then(|t| serde_json::from_str(&t).ok())
                .unwrap_or_else(|| machinery_error("first engine's evidence is missing"));
            for k in ["states", "transitions", "traces_validated_against_impl"] {
                let a = old["coverage"][k].as_u64().unwrap_or(0);
                let b = self.coverage.get(k).and_then(|v| v.as_u64()).unwrap_or(0);
                self.coverage.insert(k.to_owned(), json!(a + b));
            }
            let mut samples = old["coverage"]["samples"].as_array().cloned().unwrap_or_default();
            samples.extend(self.coverage.get("samples").and_then(|v| v.as_array()).cloned().unwrap_or_default());
            self.coverage.insert("samples".to_owned(), json!(samples));
            let ex = old["coverage"]["exhaustive"].as_bool().unwrap_or(false)
                && self.coverage.get("exhaustive").and_then(|v| v.as_bool()).unwrap_or(false);
            self.coverage.insert("exhaustive".to_owned(), json!(ex));
            self.coverage.insert("part_a".to_owned(), old["coverage"].clone());
            self.assumptions.extend(
                old["assumptions"].as_array().cloned().unwrap_or_default().iter().filter_map(|a| a.as_str().map(str::to_owned)),
            );
            unlisted_n += old["violations"].as_u64().unwrap_or(0) as usize;
            wall += old["wall_s"].as_f64().unwrap_or(0.0);
        }
        let unlisted_here = unlisted.len();
        self.coverage
            .entry("known_finding_keys".to_owned())
            .or_insert(json!(known_hits.keys().collect::<Vec<_>>()));
        self.coverage.insert(
            "violating_cases_total".to_owned(),
            json!(self.violations_total),
        );
        let ev = json!({
            "property_id": self.property,
            "tier": self.tier.as_str(),
            "seed": self.seed,
            "level": self.level,
            "coverage": Value::Object(self.coverage.clone()),
            "assumptions": self.assumptions,
            "wall_s": (wall * 1000.0).round() / 1000.0,
            "violations": unlisted_n,
            "engine": self.engine,
        });
        let ev_dir = root.join("evidence");
        let _ = std::fs::create_dir_all(&ev_dir);
        let ev_path = ev_dir.join(format!("{}.json", self.property));
        std::fs::write(&ev_path, serde_json::to_string_pretty(&ev).unwrap())
            .unwrap_or_else(|e| machinery_error(&format!("cannot write evidence: {}", e)));
        println!(
            "{} {} tier={} wall={:.1}s unlisted_violations={} known_keys={} evidence={}",
            self.engine,
            self.property,
            self.tier.as_str(),
            wall,
            unlisted_n,
            known_hits.len(),
            ev_path.display()
        );
        if unlisted_here > 0 {
            1
        } else {
            0
        }
    }
}

pub fn read_replay(path: &Path) -> Value {
    let text = std::fs::read_to_string(path)
        .unwrap_or_else(|e| machinery_error(&format!("cannot read replay {:?}: {}", path, e)));
    serde_json::from_str(&text)
        .unwrap_or_else(|e| machinery_error(&format!("bad replay {:?}: {}", path, e)))
}

// ---------------------------------------------------------------------------------------
// Crash-isolating case runner
// ---------------------------------------------------------------------------------------

/// What a child reports for one case.
#[derive(Default, Debug, Clone)]
pub struct CaseOutcome {
    pub violations: Vec<Violation>,
    /// Numeric counters, summed by the parent.
    pub stats: BTreeMap<String, u64>,
    /// Free-form items merged into sets by the parent (distinct outcomes, abstract states...).
    pub tags: Vec<String>,
    /// A description of the case, kept by the parent for a few samples.
    pub sample: Option<Value>,
    /// The process state can no longer be trusted (e.g. a double drop was observed): the child
    /// exits after reporting and the parent restarts it at the next case.
    pub poisoned: bool,
}

impl CaseOutcome {
    pub fn stat(&mut self, k: &str, n: u64) {
        *self.stats.entry(k.to_owned()).or_insert(0) += n;
    }
    pub fn tag(&mut self, t: impl Into<String>) {
        self.tags.push(t.into());
    }
    fn to_json(&self) -> Value {
        json!({
            "v": self.violations.iter().map(Violation::to_json).collect::<Vec<_>>(),
            "s": self.stats,
            "t": self.tags,
            "x": self.sample,
            "p": self.poisoned,
        })
    }
    fn from_json(v: &Value) -> Self {
        Self {
            violations: v["v"]
                .as_array()
                .map(|a| a.iter().map(Violation::from_json).collect())
                .unwrap_or_default(),
            stats: v["s"]
                .as_object()
                .map(|m| {
                    m.iter()
                        .map(|(k, v)| (k.clone(), v.as_u64().unwrap_or(0)))
                        .collect()
                })
                .unwrap_or_default(),
            tags: v["t"]
                .as_array()
                .map(|a| {
                    a.iter()
                        .filter_map(|s| s.as_str().map(str::to_owned))
                        .collect()
                })
                .unwrap_or_default(),
            sample: if v["x"].is_null() {
                None
            } else {
                Some(v["x"].clone())
            },
            poisoned: v["p"].as_bool().unwrap_or(false),
        }
    }
}

/// Child side: runs the cases `from..n` with `idx % of == shard`, reporting on stdout.
/// `spec` = "<shard>/<of>/<from>[/<limit>]".
pub fn child_loop(spec: &str, n: usize, mut run: impl FnMut(usize) -> CaseOutcome) -> ! {
    let parts: Vec<usize> = spec.split('/').map(|p| p.parse().expect("child spec")).collect();
    let (shard, of, from) = (parts[0], parts[1], parts[2]);
    let mut limit = parts.get(3).copied().unwrap_or(usize::MAX);
    let stdout = std::io::stdout();
    let mut idx = from;
    while idx < n && limit > 0 {
        if idx % of == shard {
            limit -= 1;
            {
                let mut o = stdout.lock();
                writeln!(o, "S {}", idx).unwrap();
                o.flush().unwrap();
            }
            let out = run(idx);
            {
                let mut o = stdout.lock();
                writeln!(o, "R {} {}", idx, out.to_json()).unwrap();
                o.flush().unwrap();
            }
            if out.poisoned {
                std::process::exit(3);
            }
        }
        idx += 1;
    }
    {
        let mut o = stdout.lock();
        writeln!(o, "E").unwrap();
        o.flush().unwrap();
    }
    std::process::exit(0)
}

#[derive(Default)]
pub struct Merged {
    pub cases_run: u64,
    pub crashes: u64,
    pub violations: Vec<Violation>,
    pub violations_total: u64,
    pub stats: BTreeMap<String, u64>,
    pub tags: BTreeSet<String>,
    pub samples: Vec<Value>,
    pub complete: bool,
}

/// Parent side: runs all `n` cases in `workers` child processes (`child_args` + `--child spec`),
/// restarting a child after a crash (the crash is a violation of the case it had started, built
/// by `crash_violation(idx, status, stderr_tail)`).
pub fn run_isolated(
    exe: &Path,
    child_args: &[String],
    n: usize,
    workers: usize,
    crash_violation: &(dyn Fn(usize, String, String) -> Violation + Sync),
) -> Merged {
    let workers = workers.max(1).min(n.max(1));
    let results: Vec<Merged> = std::thread::scope(|s| {
        let handles: Vec<_> = (0..workers)
            .map(|w| {
                let exe = exe.to_path_buf();
                s.spawn(move || {
                    let mut m = Merged {
                        complete: true,
                        ..Default::default()
                    };
                    let mut from = 0usize;
                    let mut restarts = 0;
                    loop {
                        let mut child = Command::new(&exe)
                            .args(child_args)
                            .arg("--child")
                            .arg(format!("{}/{}/{}", w, workers, from))
                            .stdin(Stdio::null())
                            .stdout(Stdio::piped())
                            .stderr(Stdio::piped())
                            .spawn()
                            .unwrap_or_else(|e| machinery_error(&format!("spawn child: {}", e)));
                        let stderr = child.stderr.take().unwrap();
                        let err_thread = std::thread::spawn(move || {
                            let mut tail: Vec<String> = Vec::new();
                            for line in BufReader::new(stderr).lines().map_while(Result::ok) {
                                tail.push(line);
                                if tail.len() > 30 {
                                    tail.remove(0);
                                }
                            }
                            tail.join("\n")
                        });
                        let mut pending: Option<usize> = None;
                        let mut ended = false;
                        let mut last_done: Option<usize> = None;
                        for line in BufReader::new(child.stdout.take().unwrap())
                            .lines()
                            .map_while(Result::ok)
                        {
                            if let Some(rest) = line.strip_prefix("S ") {
                                pending = rest.trim().parse().ok();
                            } else if let Some(rest) = line.strip_prefix("R ") {
                                let (idx, js) = rest.split_once(' ').unwrap_or((rest, "{}"));
                                let idx: usize = idx.parse().unwrap_or(usize::MAX);
                                let v: Value = serde_json::from_str(js).unwrap_or(Value::Null);
                                let out = CaseOutcome::from_json(&v);
                                m.cases_run += 1;
                                m.violations_total += out.violations.len() as u64;
                                for v in out.violations {
                                    if m.violations.len() < MAX_KEPT_VIOLATIONS {
                                        m.violations.push(v);
                                    }
                                }
                                for (k, n) in out.stats {
                                    *m.stats.entry(k).or_insert(0) += n;
                                }
                                m.tags.extend(out.tags);
                                if let Some(x) = out.sample {
                                    if m.samples.len() < 4 {
                                        m.samples.push(x);
                                    }
                                }
                                pending = None;
                                last_done = Some(idx);
                            } else if line == "E" {
                                ended = true;
                            }
                        }
                        let status = child.wait().expect("wait child");
                        let err_tail = err_thread.join().unwrap_or_default();
                        if ended && status.success() {
                            break;
                        }
                        if let Some(idx) = pending {
                            // crashed inside case idx
                            m.crashes += 1;
                            m.cases_run += 1;
                            m.violations_total += 1;
                            if m.violations.len() < MAX_KEPT_VIOLATIONS {
                                m.violations
                                    .push(crash_violation(idx, format!("{}", status), err_tail));
                            }
                            from = idx + 1;
                        } else if let Some(idx) = last_done {
                            // poisoned exit (code 3) after a reported case, or died between cases:
                            // heap corruption is often detected late, by the allocator, when the
                            // harness itself frees or allocates after the case was reported done.
                            // The death is a violation attributed to the last case that ran.
                            if status.code() != Some(3) {
                                m.crashes += 1;
                                m.violations_total += 1;
                                if m.violations.len() < MAX_KEPT_VIOLATIONS {
                                    m.violations.push(crash_violation(
                                        idx,
                                        format!("{}, after this case had been reported done (damage detected late, done by this case or an earlier one of the same process)", status),
                                        err_tail,
                                    ));
                                }
                            }
                            from = idx + 1;
                        } else {
                            machinery_error(&format!(
                                "child failed before its first case ({}): {}",
                                status, err_tail
                            ));
                        }
                        restarts += 1;
                        if restarts > 50 {
                            m.complete = false;
                            break;
                        }
                        if from >= n {
                            break;
                        }
                    }
                    m
                })
            })
            .collect();
        handles.into_iter().map(|h| h.join().unwrap()).collect()
    });
    let mut all = Merged {
        complete: true,
        ..Default::default()
    };
    for m in results {
        all.cases_run += m.cases_run;
        all.crashes += m.crashes;
        all.violations_total += m.violations_total;
        all.violations.extend(m.violations);
        for (k, n) in m.stats {
            *all.stats.entry(k).or_insert(0) += n;
        }
        all.tags.extend(m.tags);
        all.samples.extend(m.samples);
        all.complete &= m.complete;
    }
    all.violations.truncate(MAX_KEPT_VIOLATIONS);
    all.samples.truncate(6);
    all
}

/// Re-runs exactly one case in a fresh child (replay confirmation). Returns the violations it
/// reported (a crash counts as one, built by `crash_violation`).
pub fn run_single(
    exe: &Path,
    child_args: &[String],
    idx: usize,
    crash_violation: &(dyn Fn(usize, String, String) -> Violation + Sync),
) -> Vec<Violation> {
    let out = Command::new(exe)
        .args(child_args)
        .arg("--child")
        .arg(format!("0/1/{}/1", idx))
        .stdin(Stdio::null())
        .output()
        .unwrap_or_else(|e| machinery_error(&format!("spawn child: {}", e)));
    let text = String::from_utf8_lossy(&out.stdout);
    for line in text.lines() {
        if let Some(rest) = line.strip_prefix("R ") {
            let (_, js) = rest.split_once(' ').unwrap_or((rest, "{}"));
            let v: Value = serde_json::from_str(js).unwrap_or(Value::Null);
            return CaseOutcome::from_json(&v).violations;
        }
    }
    vec![crash_violation(
        idx,
        format!("{}", out.status),
        String::from_utf8_lossy(&out.stderr).lines().rev().take(20).collect::<Vec<_>>().join(" | "),
    )]
}

/// Re-runs, in one fresh process, every case that worker `idx % workers` of a sweep over
/// `workers` processes executes up to and including `idx`, and returns the violations of `idx`:
/// the confirmation of a violation that depends on what ran earlier in the same process.
pub fn run_prefix(
    exe: &Path,
    child_args: &[String],
    idx: usize,
    workers: usize,
    crash_violation: &(dyn Fn(usize, String, String) -> Violation + Sync),
) -> Vec<Violation> {
    let workers = workers.max(1);
    let out = Command::new(exe)
        .args(child_args)
        .arg("--child")
        .arg(format!("{}/{}/0/{}", idx % workers, workers, idx / workers + 1))
        .stdin(Stdio::null())
        .output()
        .unwrap_or_else(|e| machinery_error(&format!("spawn child: {}", e)));
    let text = String::from_utf8_lossy(&out.stdout);
    let mut last_started = None;
    for line in text.lines() {
        if let Some(rest) = line.strip_prefix("S ") {
            last_started = rest.trim().parse::<usize>().ok();
        }
        if let Some(rest) = line.strip_prefix("R ") {
            let (i, js) = rest.split_once(' ').unwrap_or((rest, "{}"));
            if i.parse::<usize>().ok() == Some(idx) {
                let v: Value = serde_json::from_str(js).unwrap_or(Value::Null);
                return CaseOutcome::from_json(&v).violations;
            }
        }
    }
    if last_started == Some(idx) {
        return vec![crash_violation(
            idx,
            format!("{}", out.status),
            String::from_utf8_lossy(&out.stderr).lines().rev().take(20).collect::<Vec<_>>().join(" | "),
        )];
    }
    Vec::new()
}

/// Silences panic messages (the engines provoke thousands of expected panics) while keeping the
/// last message available for diagnostics.
pub fn quiet_panics() {
    std::panic::set_hook(Box::new(|_| {}));
}

/// For child processes: one short line per panic on stderr (the parent keeps the tail, so the
/// message of an uncaught panic that kills the child is available for the crash report).
pub fn brief_panics() {
    std::panic::set_hook(Box::new(|info| {
        let msg = if let Some(s) = info.payload().downcast_ref::<&'static str>() {
            (*s).to_owned()
        } else if let Some(s) = info.payload().downcast_ref::<String>() {
            s.clone()
        } else {
            "<payload>".to_owned()
        };
        let loc = info.location().map(|l| format!("{}:{}", l.file(), l.line())).unwrap_or_default();
        eprintln!("panic: {} at {}", msg.chars().take(200).collect::<String>(), loc);
    }));
}

pub fn panic_message(p: &(dyn std::any::Any + Send)) -> String {
    if let Some(s) = p.downcast_ref::<&'static str>() {
        (*s).to_owned()
    } else if let Some(s) = p.downcast_ref::<String>() {
        s.clone()
    } else {
        "<non-string panic payload>".to_owned()
    }
}
