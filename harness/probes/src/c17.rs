use vcommon::Args; use crate::Externs; pub fn main(_a: &Args, _e: &Externs) -> i32 { 2 }
