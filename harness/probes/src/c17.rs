//! C17 — a recorded type name denotes the same type in generated code; table lookups ignore
//! whitespace and accept short and fully qualified spellings.
//!
//! Phase 1: a generated program (linked with the real truc) records
//! `HostTypeResolver::type_info::<T>().name` for every type T of a grammar, registers every T in a
//! `StaticTypeResolver` and looks it up under several spellings. Phase 2: for every T the
//! compiler decides whether `fn(T) -> <recorded name>` is inhabited by the identity.

use std::collections::BTreeMap;

use vcommon::{json, Args, Report, Tier, Violation};

use crate::{rustc, Externs};

#[derive(Clone, Debug)]
enum Ty {
    Base(usize),
    Un(usize, Box<Ty>),
    Bin(usize, Box<Ty>, Box<Ty>),
}

/// (short / source spelling, fully qualified spelling)
const BASES: [(&str, &str); 14] = [
    ("u8", "u8"),
    ("u32", "u32"),
    ("i64", "i64"),
    ("f64", "f64"),
    ("bool", "bool"),
    ("char", "char"),
    ("usize", "usize"),
    ("()", "()"),
    ("String", "alloc::string::String"),
    ("usertypes::Plain", "usertypes::Plain"),
    ("usertypes::inner::Deep", "usertypes::inner::Deep"),
    ("Box<str>", "alloc::boxed::Box<str>"),
    // user types named like standard types (must keep their path)
    ("usertypes::string::String", "usertypes::string::String"),
    ("usertypes::vec::Vec", "usertypes::vec::Vec"),
];

const UNARY: [(&str, &str); 14] = [
    ("Box<{}>", "alloc::boxed::Box<{}>"),
    ("Vec<{}>", "alloc::vec::Vec<{}>"),
    ("Option<{}>", "core::option::Option<{}>"),
    ("Result<{}, String>", "core::result::Result<{}, alloc::string::String>"),
    ("Result<u8, {}>", "core::result::Result<u8, {}>"),
    ("({},)", "({},)"),
    ("({}, u8)", "({}, u8)"),
    ("[{}; 3]", "[{}; 3]"),
    // a two-digit length, a tuple of four
    ("[{}; 12]", "[{}; 12]"),
    ("({}, u8, bool, i64)", "({}, u8, bool, i64)"),
    ("Box<[{}]>", "alloc::boxed::Box<[{}]>"),
    ("usertypes::Wrap<{}>", "usertypes::Wrap<{}>"),
    ("usertypes::option::Option<{}>", "usertypes::option::Option<{}>"),
    ("usertypes::result::Result<{}, u8>", "usertypes::result::Result<{}, u8>"),
];

const BINARY: [(&str, &str); 3] = [
    ("Result<{}, {}>", "core::result::Result<{}, {}>"),
    ("({}, {})", "({}, {})"),
    ("usertypes::Pair<{}, {}>", "usertypes::Pair<{}, {}>"),
];

impl Ty {
    /// `qualified(depth)` chooses the spelling of the node at that depth.
    fn spell(&self, depth: usize, qualified: &dyn Fn(usize) -> bool) -> String {
        let pick = |p: (&'static str, &'static str)| if qualified(depth) { p.1 } else { p.0 };
        match self {
            Ty::Base(b) => pick(BASES[*b]).to_owned(),
            Ty::Un(c, t) => pick(UNARY[*c]).replacen("{}", &t.spell(depth + 1, qualified), 1),
            Ty::Bin(c, a, b) => pick(BINARY[*c]).replacen("{}", &a.spell(depth + 1, qualified), 1).replacen("{}", &b.spell(depth + 1, qualified), 1),
        }
    }
    fn depth(&self) -> usize {
        match self {
            Ty::Base(_) => 0,
            Ty::Un(_, t) => 1 + t.depth(),
            Ty::Bin(_, a, b) => 1 + a.depth().max(b.depth()),
        }
    }
}

fn unary_closure(bases: &[usize], depth: usize) -> Vec<Ty> {
    let mut all: Vec<Ty> = bases.iter().map(|b| Ty::Base(*b)).collect();
    let mut layer = all.clone();
    for _ in 0..depth {
        let mut next = vec![];
        for t in &layer {
            for c in 0..UNARY.len() {
                next.push(Ty::Un(c, Box::new(t.clone())));
            }
        }
        all.extend(next.iter().cloned());
        layer = next;
    }
    all
}

fn grammar(tier: Tier) -> Vec<Ty> {
    let all_bases: Vec<usize> = (0..BASES.len()).collect();
    let mut v = unary_closure(&all_bases, 2);
    let three = [0usize, 8, 9];
    let inner = match tier {
        Tier::Quick => unary_closure(&three, 0),
        Tier::Thorough => unary_closure(&three, 1),
    };
    for c in 0..BINARY.len() {
        for a in &inner {
            for b in &inner {
                v.push(Ty::Bin(c, Box::new(a.clone()), Box::new(b.clone())));
            }
        }
    }
    if tier == Tier::Thorough {
        // depth 3 over four bases
        for t in unary_closure(&[0, 8, 10, 7], 3) {
            if t.depth() == 3 {
                v.push(t);
            }
        }
    }
    // the same type can be derived twice (Result<u8, String>): keep one
    let mut seen = std::collections::BTreeSet::new();
    v.retain(|t| seen.insert(t.spell(0, &|_| false)));
    v
}

const SPELLINGS: [&str; 7] = ["short", "qualified", "outer-qualified-inner-short", "outer-short-inner-qualified", "qualified-without-spaces", "qualified-with-extra-spaces", "short-with-extra-spaces"];

fn spellings(t: &Ty) -> Vec<String> {
    let short = t.spell(0, &|_| false);
    let qual = t.spell(0, &|_| true);
    let wide = |s: &str| s.replace('<', " < ").replace('>', " > ").replace(',', " ,  ").replace("::", " :: ");
    vec![
        short.clone(),
        qual.clone(),
        t.spell(0, &|d| d % 2 == 0),
        t.spell(0, &|d| d % 2 == 1),
        qual.replace(' ', ""),
        wide(&qual),
        wide(&short),
    ]
}

const PHASE1_HEAD: &str = r#"
use truc::record::type_resolver::{HostTypeResolver, StaticTypeResolver, TypeResolver};
use std::panic::{catch_unwind, AssertUnwindSafe};

struct Ctx { table: StaticTypeResolver, pending: Vec<(usize, String, usize, usize, Vec<String>)> }

fn probe<T>(ctx: &mut Ctx, idx: usize, spellings: &[&str]) {
    let host = HostTypeResolver.type_info::<T>();
    let reg = catch_unwind(AssertUnwindSafe(|| ctx.table.add_type::<T>()));
    println!("N\t{}\t{}\t{}", idx, host.name, if reg.is_ok() { "registered" } else { "collision" });
    let typed = catch_unwind(AssertUnwindSafe(|| ctx.table.type_info::<T>()));
    match typed {
        Ok(t) if t == host && t.size == std::mem::size_of::<T>() && t.align == std::mem::align_of::<T>() => {}
        Ok(t) => println!("L\t{}\ttyped\tdiffers: {:?} vs {:?}", idx, t, host),
        Err(_) => println!("L\t{}\ttyped\tnot found", idx),
    }
    let mut sp: Vec<String> = spellings.iter().map(|s| s.to_string()).collect();
    sp.push(std::any::type_name::<T>().to_owned());
    ctx.pending.push((idx, host.name, std::mem::size_of::<T>(), std::mem::align_of::<T>(), sp));
}

fn main() {
    std::panic::set_hook(Box::new(|_| {}));
    let mut ctx = Ctx { table: StaticTypeResolver::new(), pending: vec![] };
    fill(&mut ctx);
    let pending = std::mem::take(&mut ctx.pending);
    for (idx, name, size, align, sp) in pending {
        for (k, s) in sp.iter().enumerate() {
            match catch_unwind(AssertUnwindSafe(|| ctx.table.dynamic_type_info(s))) {
                Ok(d) => {
                    if d.info.name != name || d.info.size != size || d.info.align != align {
                        println!("L\t{}\t{}\tanswers {:?} for spelling {:?}, registered ({}, {}, {})", idx, k, d.info, s, name, size, align);
                    } else {
                        println!("K\t{}\t{}", idx, k);
                    }
                }
                Err(_) => println!("L\t{}\t{}\tspelling {:?} is not found", idx, k, s),
            }
        }
    }
}
"#;

pub fn main(args: &Args, ext: &Externs) -> i32 {
    let t0 = std::time::Instant::now();
    let types = grammar(args.tier);
    let dir = crate::work_dir("C17");
    let n = types.len();
    let shards = 16usize.min(n.max(1));
    // ---- phase 1
    let outputs = crate::parallel(shards, |s| {
        let mut src = String::from(PHASE1_HEAD);
        src.push_str("fn fill(ctx: &mut Ctx) {\n");
        for (i, t) in types.iter().enumerate() {
            if i % shards != s {
                continue;
            }
            let sp = spellings(t);
            src.push_str(&format!("    probe::<{}>(ctx, {}, &[{}]);\n", t.spell(0, &|_| false), i, sp.iter().map(|x| format!("{:?}", x)).collect::<Vec<_>>().join(", ")));
        }
        src.push_str("}\n");
        let path = dir.join(format!("phase1_{}.rs", s));
        std::fs::write(&path, src).unwrap();
        let bin = dir.join(format!("phase1_{}", s));
        let r = rustc(ext, &path, &["truc", "usertypes"], Some(&bin));
        if !r.ok {
            return Err(format!("phase-1 program does not compile: {}", r.stderr.lines().filter(|l| l.starts_with("error")).take(3).collect::<Vec<_>>().join(" | ")));
        }
        let out = std::process::Command::new(&bin).output().map_err(|e| e.to_string())?;
        let _ = std::fs::remove_file(&bin);
        let _ = std::fs::remove_file(&path);
        if !out.status.success() {
            return Err(format!("phase-1 program failed: {}", String::from_utf8_lossy(&out.stderr)));
        }
        Ok(String::from_utf8_lossy(&out.stdout).to_string())
    });
    let mut recorded: BTreeMap<usize, String> = BTreeMap::new();
    let mut report = Report::new("probes", args, "exploration");
    report.start = t0;
    let mut lookups_ok = 0u64;
    let mut lookups_bad = 0u64;
    let case = |i: usize| json!({"space": "c17-probe", "type": types[i].spell(0, &|_| false), "index": i});
    for o in outputs {
        let text = match o {
            Ok(t) => t,
            Err(e) => vcommon::machinery_error(&e),
        };
        for line in text.lines() {
            let f: Vec<&str> = line.split('\t').collect();
            match f[0] {
                "N" => {
                    let i: usize = f[1].parse().unwrap();
                    recorded.insert(i, f[2].to_owned());
                    if f[3] == "collision" {
                        report.add(Violation::new("C17/name-collision", format!("type {} is recorded as {:?}, a name another registered type already has", types[i].spell(0, &|_| false), f[2]), case(i)));
                    }
                }
                "K" => lookups_ok += 1,
                "L" => {
                    lookups_bad += 1;
                    let i: usize = f[1].parse().unwrap();
                    let kind = f[2].parse::<usize>().ok().map(|k| SPELLINGS.get(k).copied().unwrap_or("compiler-type_name")).unwrap_or("typed");
                    report.add(Violation::new(format!("C17/lookup/{}", kind), format!("type {}: {}", types[i].spell(0, &|_| false), f[3]), case(i)));
                }
                _ => {}
            }
        }
    }
    if recorded.len() != n {
        vcommon::machinery_error("phase 1 did not report every type");
    }
    // distinct types must have distinct recorded names
    let mut by_name: BTreeMap<&str, usize> = BTreeMap::new();
    for (i, name) in &recorded {
        if let Some(j) = by_name.insert(name.as_str(), *i) {
            report.add(Violation::new("C17/name-collision", format!("types {} and {} are both recorded as {:?}", types[j].spell(0, &|_| false), types[*i].spell(0, &|_| false), name), case(*i)));
        }
    }
    // ---- phase 2: the compiler decides type equality
    let chunks = 16usize.min(n.max(1));
    let verdicts = crate::parallel(chunks, |c| {
        let idxs: Vec<usize> = (0..n).filter(|i| i % chunks == c).collect();
        let mut src = String::from("#![allow(dead_code, unused)]\nextern crate alloc;\n");
        let header_lines = 2;
        for i in &idxs {
            src.push_str(&format!("const _: fn({}) -> {} = |x| x;\n", types[*i].spell(0, &|_| false), recorded[i]));
        }
        let path = dir.join(format!("phase2_{}.rs", c));
        std::fs::write(&path, src).unwrap();
        let r = rustc(ext, &path, &["usertypes"], None);
        let _ = std::fs::remove_file(&path);
        let mut bad: Vec<(usize, String)> = vec![];
        if !r.ok {
            let fname = path.file_name().unwrap().to_string_lossy().to_string();
            let lines: Vec<&str> = r.stderr.lines().collect();
            let mut last_err = String::new();
            for l in &lines {
                if l.starts_with("error") {
                    last_err = l.to_string();
                }
                if let Some(pos) = l.find(&format!("{}:", fname)) {
                    let rest = &l[pos + fname.len() + 1..];
                    if let Some(ln) = rest.split(':').next().and_then(|x| x.parse::<usize>().ok()) {
                        if ln > header_lines && ln - header_lines - 1 < idxs.len() {
                            let i = idxs[ln - header_lines - 1];
                            if !bad.iter().any(|(j, _)| *j == i) {
                                bad.push((i, last_err.clone()));
                            }
                        }
                    }
                }
            }
            if bad.is_empty() {
                bad.push((usize::MAX, r.stderr.lines().take(5).collect::<Vec<_>>().join(" | ")));
            }
        }
        bad
    });
    let mut denote_bad = 0u64;
    for bad in verdicts {
        for (i, msg) in bad {
            if i == usize::MAX {
                vcommon::machinery_error(&format!("phase-2 probe failed without a locatable error: {}", msg));
            }
            denote_bad += 1;
            let kind = if msg.contains("mismatched types") { "name-denotes-another-type" } else { "name-does-not-compile" };
            report.add(Violation::new(format!("C17/{}", kind), format!("type {} is recorded as {:?}: {}", types[i].spell(0, &|_| false), recorded[&i], msg), case(i)));
        }
    }
    let mut seen = std::collections::BTreeSet::new();
    report.violations.retain(|v| seen.insert(v.key.clone()));
    if args.replay.is_some() {
        let doc = vcommon::read_replay(args.replay.as_ref().unwrap());
        let want = doc["key"].as_str().unwrap_or("").to_owned();
        let hit: Vec<_> = report.violations.iter().filter(|v| v.key == want).collect();
        for v in &hit {
            println!("REPLAY-VIOLATION property=C17 key={} :: {}", v.key, v.what);
        }
        return if hit.is_empty() { println!("REPLAY-OK property=C17"); 0 } else { 1 };
    }
    let samples: Vec<_> = [7usize, n / 3, n / 2, n - 1].iter().filter(|i| **i < n).map(|i| json!({"type": types[*i].spell(0, &|_| false), "recorded_name": recorded[i], "spellings_looked_up": spellings(&types[*i])})).collect();
    report
        .cov("evaluations", n as u64 + lookups_ok + lookups_bad)
        .cov("distinct_nontrivial", types.iter().filter(|t| t.depth() > 0).count() as u64)
        .cov("rule", "every type of the grammar {14 bases incl. user types named like String / Vec} x {Box Vec Option Result<_,String> Result<u8,_> (_,) (_,u8) [_;3] Box<[_]> usertypes::Wrap usertypes::option::Option usertypes::result::Result} to unary depth 2, plus binary constructors {Result, tuple, usertypes::Pair} over three bases (thorough: inner depth 1, and unary depth 3 over four bases); per type: the recorded name must type-check as the identity's return type (rustc decides), and 8 spellings (short, qualified, two alternating mixtures, without spaces, two with extra spaces, the compiler's type_name) plus the typed lookup must find the registered entry; non-trivial = types with at least one constructor, all distinct")
        .cov("samples", samples)
        .cov("exhaustive", true)
        .cov("types", n as u64)
        .cov("lookups_ok", lookups_ok)
        .cov("lookups_failed", lookups_bad)
        .cov("names_rejected_by_compiler", denote_bad);
    report.assume("interpretation: each standard type inside a name may be spelled short or fully qualified independently (mixed spellings are looked up too)");
    report.assume("rustc decides type equality (phase 2, --emit=metadata); phase 1 runs the real truc resolvers");
    report.finish()
}
