//! When engine B's shards do not compile, this probe finds out why: every definition of the family
//! is generated and type-checked together with its glue (the mechanical user of the whole public
//! generated interface). A definition whose generated interface lacks something the property
//! promises (a removed field in `...AndUnpackedOut`, a field of `UnpackedRecord...`, an accessor)
//! is a violation of that property; anything else stays a machinery error.

use vcommon::{json, Args, Report, Violation};

use crate::{Externs, PRELUDE};

fn attribute(stderr: &str) -> Option<(&'static str, String)> {
    // first error line + the struct / method it talks about
    let mut cur = String::new();
    for l in stderr.lines() {
        if l.starts_with("error") {
            cur = l.to_owned();
            let low = l.to_owned();
            if low.contains("AndUnpackedOut") && (low.contains("does not have a field") || low.contains("has no field") || low.contains("missing field") || low.contains("pattern does not mention")) {
                return Some(("C05", cur));
            }
            if (low.contains("UnpackedRecordIn") || low.contains("UnpackedUninitRecordIn")) && (low.contains("field") || low.contains("missing")) {
                return Some(("C05", cur));
            }
            if (low.contains("UnpackedRecord") || low.contains("UnpackedUninitRecord")) && (low.contains("field") || low.contains("missing")) {
                return Some(("C04", cur));
            }
            if low.contains("no method named") || low.contains("no function or associated item named") {
                return Some(("C04", cur));
            }
            if low.contains("the trait bound") && low.contains("From<") {
                return Some(("C05", cur));
            }
        }
    }
    if cur.is_empty() {
        None
    } else {
        Some(("C13", cur))
    }
}

pub fn main(args: &Args, ext: &Externs) -> i32 {
    let t0 = std::time::Instant::now();
    let prop = args.property.clone();
    let family = defgen::family(args.tier.as_str());
    let dir = crate::work_dir(&format!("iface-{}", prop));
    let results = crate::parallel(family.len(), |i| {
        let spec = &family[i];
        let built = match std::panic::catch_unwind(|| defgen::build(spec)) {
            Ok(b) => b,
            Err(p) => return Some(("C13", format!("building the definition panicked: {}", vcommon::panic_message(&*p)))),
        };
        let code = match std::panic::catch_unwind(std::panic::AssertUnwindSafe(|| defgen::generate_module(&built.def, true, true))) {
            Ok(c) => c,
            Err(p) => return Some(("C13", format!("generate() panicked: {}", vcommon::panic_message(&*p)))),
        };
        let sub = dir.join(format!("d{}", i));
        std::fs::create_dir_all(&sub).unwrap();
        let gen_file = format!("d{}_gen.rs", i);
        std::fs::write(sub.join(&gen_file), &code).unwrap();
        let glue = defgen::emit_glue(spec, &built, &format!("d{}", i), &gen_file, &code);
        let src = sub.join("iface.rs");
        std::fs::write(&src, format!("{}{}", PRELUDE, glue)).unwrap();
        // rustc with OUT_DIR pointing at the directory of the generated module
        let mut cmd = std::process::Command::new("rustc");
        cmd.env("OUT_DIR", &sub).arg("--edition").arg("2021").arg("--color").arg("never").arg("--cap-lints").arg("allow");
        cmd.arg("-L").arg(format!("dependency={}", ext.deps_dir.display()));
        for c in ["truc_runtime", "static_assertions", "vtypes", "serde", "serde_json", "bincode", "reccore"] {
            cmd.arg("--extern").arg(format!("{}={}", c, ext.map[c].display()));
        }
        cmd.arg("--crate-type").arg("lib").arg("--emit=metadata").arg("-o").arg(sub.join("iface.rmeta")).arg(&src);
        let out = cmd.output().expect("rustc");
        let _ = std::fs::remove_dir_all(&sub);
        if out.status.success() {
            None
        } else {
            attribute(&String::from_utf8_lossy(&out.stderr)).map(|(p, m)| (p, m))
        }
    });
    let mut report = Report::new("probes", args, "model_checking");
    report.start = t0;
    let mut other = vec![];
    let mut n_bad = 0;
    for (spec, r) in family.iter().zip(results.iter()) {
        if let Some((p, msg)) = r {
            n_bad += 1;
            if *p == prop {
                report.add(Violation::new(
                    format!("{}/generated-interface", prop),
                    format!("{} ({}): the generated interface lacks what the property promises: {}", spec.name, spec.describe(), msg),
                    json!({"space": "iface-probe", "definition": spec.name, "history": spec.describe()}),
                ));
            } else {
                other.push(format!("{} -> {}: {}", spec.name, p, msg));
            }
        }
    }
    let mut seen = std::collections::BTreeSet::new();
    report.violations.retain(|v| seen.insert(v.key.clone()));
    if report.violations.is_empty() {
        for o in other.iter().take(5) {
            println!("note: {}", o.chars().take(300).collect::<String>());
        }
        vcommon::machinery_error(&format!(
            "engine B's generated modules or their glue do not compile ({} definitions), and the reason is not attributable to {} (see C13 / C04 / C05)",
            n_bad, prop
        ));
    }
    report
        .cov("states", family.len() as u64)
        .cov("transitions", family.len() as u64)
        .cov("traces_validated_against_impl", family.len() as u64)
        .cov("samples", vec![json!({"definitions_whose_interface_does_not_type_check": n_bad})])
        .cov("exhaustive", true)
        .cov("explanation", "engine B could not be built; every definition of the family was type-checked together with the mechanical user of its generated interface (the glue) and the rejections attributable to this property are reported");
    report.finish()
}
