//! C13 (b) — every module of engine B's definition family compiles against the runtime with any
//! selection of the optional fragments.

use vcommon::{json, Args, Report, Violation};

use crate::{rustc, Externs, PRELUDE};

const CONFIGS: [(&str, bool, bool); 4] = [("default", false, false), ("clone", true, false), ("serde", false, true), ("clone+serde", true, true)];

pub fn main(args: &Args, ext: &Externs) -> i32 {
    let t0 = std::time::Instant::now();
    let mut family = defgen::family(args.tier.as_str());
    if let Some(p) = &args.replay {
        let d = vcommon::read_replay(p);
        let name = d["case"]["definition"].as_str().unwrap_or("").to_owned();
        family.retain(|f| f.name == name);
    }
    let dir = crate::work_dir("C13");
    // one rustc run per definition (its four modules side by side); on failure, one per module
    let results = crate::parallel(family.len(), |i| {
        let spec = &family[i];
        let built = match std::panic::catch_unwind(|| defgen::build(spec)) {
            Ok(b) => b,
            Err(p) => return vec![("build".to_owned(), format!("building the definition panicked: {}", vcommon::panic_message(&*p)))],
        };
        let mut mods = vec![];
        for (name, clone, serde) in CONFIGS {
            match std::panic::catch_unwind(std::panic::AssertUnwindSafe(|| defgen::generate_module(&built.def, clone, serde))) {
                Ok(code) => mods.push((name, code)),
                Err(p) => return vec![(format!("generate/{}", name), format!("generate() panicked: {}", vcommon::panic_message(&*p)))],
            }
        }
        let all = format!("{}{}", PRELUDE, mods.iter().enumerate().map(|(k, (_, c))| format!("pub mod m{} {{\n{}\n}}\n", k, c)).collect::<String>());
        let path = dir.join(format!("def{}.rs", i));
        std::fs::write(&path, all).unwrap();
        let r = rustc(ext, &path, &["truc_runtime", "static_assertions", "vtypes", "serde"], None);
        let _ = std::fs::remove_file(&path);
        if r.ok {
            return vec![];
        }
        let mut bad = vec![];
        for (k, (name, code)) in mods.iter().enumerate() {
            let path = dir.join(format!("def{}_{}.rs", i, k));
            std::fs::write(&path, format!("{}pub mod m {{\n{}\n}}\n", PRELUDE, code)).unwrap();
            let r = rustc(ext, &path, &["truc_runtime", "static_assertions", "vtypes", "serde"], None);
            let _ = std::fs::remove_file(&path);
            if !r.ok {
                bad.push((format!("compile/{}", name), r.stderr.lines().filter(|l| l.starts_with("error")).take(3).collect::<Vec<_>>().join(" | ")));
            }
        }
        if bad.is_empty() {
            bad.push(("compile/combined".to_owned(), r.stderr.lines().filter(|l| l.starts_with("error")).take(3).collect::<Vec<_>>().join(" | ")));
        }
        bad
    });
    // field types that are nameable but neither Send nor Sync, or only one of the two (no Clone, no
    // serde: the bare fragment selection only) - in the first variant / added later, removed later
    let kinds = ["Both", "SendOnly", "SendOnlyWrapped", "SyncOnly", "Neither", "NeitherWrapped", "RawPtr", "NeitherCopy?", "SyncOnlyCopy?", "SendOnlyCopy?"];
    let extra = crate::parallel(kinds.len() * 2, |i| {
        use truc::record::{definition::builder::native::NativeRecordDefinitionBuilder, type_resolver::HostTypeResolver};
        let kind = kinds[i / 2];
        let later = i % 2 == 1;
        let mut b = NativeRecordDefinitionBuilder::new(HostTypeResolver);
        macro_rules! add_kind {
            ($b:expr, $name:expr) => {
                match kind {
                    "Both" => $b.add_datum::<usertypes::Both, _>($name),
                    "SendOnly" => $b.add_datum::<usertypes::SendOnly, _>($name),
                    "SendOnlyWrapped" => $b.add_datum::<usertypes::SendOnlyWrapped, _>($name),
                    "SyncOnly" => $b.add_datum::<usertypes::SyncOnly, _>($name),
                    "Neither" => $b.add_datum::<usertypes::Neither, _>($name),
                    "NeitherWrapped" => $b.add_datum::<usertypes::NeitherWrapped, _>($name),
                    "NeitherCopy?" => $b.add_datum_allow_uninit::<usertypes::NeitherCopy, _>($name),
                    "SyncOnlyCopy?" => $b.add_datum_allow_uninit::<usertypes::SyncOnlyCopy, _>($name),
                    "SendOnlyCopy?" => $b.add_datum_allow_uninit::<usertypes::SendOnlyCopy, _>($name),
                    _ => $b.add_datum::<usertypes::RawPtr, _>($name),
                }
                .unwrap()
            };
        }
        b.add_datum::<u32, _>("plain").unwrap();
        let id = if later {
            b.close_record_variant();
            add_kind!(b, "subject")
        } else {
            add_kind!(b, "subject")
        };
        b.close_record_variant();
        b.remove_datum(id).unwrap();
        b.add_datum::<String, _>("text").unwrap();
        b.close_record_variant();
        let def = b.build();
        let code = truc::generator::generate(&def, &truc::generator::config::GeneratorConfig::default());
        let path = dir.join(format!("auto{}.rs", i));
        std::fs::write(&path, format!("{}pub mod m {{\n{}\n}}\n", PRELUDE, code)).unwrap();
        let r = rustc(ext, &path, &["truc_runtime", "static_assertions", "usertypes"], None);
        let _ = std::fs::remove_file(&path);
        if r.ok {
            None
        } else {
            Some((format!("usertypes::{} {}", kind, if later { "added in a later variant" } else { "in the first variant" }), r.stderr.lines().filter(|l| l.starts_with("error")).take(2).collect::<Vec<_>>().join(" | ")))
        }
    });
    let mut report = Report::new("probes", args, "model_checking");
    report.start = t0;
    report.merge_tag = Some("b".to_owned());
    if args.replay.is_none() {
        for (what, msg) in extra.iter().flatten() {
            report.add(Violation::new(
                "C13/generated-module-rejected/restricted-auto-trait-field",
                format!("a definition with a field of type {} generates a module that does not compile: {}", what, msg),
                json!({"space": "c13-probe", "definition": what, "stage": "compile/default"}),
            ));
        }
    }
    let mut samples = vec![];
    for (spec, bad) in family.iter().zip(results.iter()) {
        for (k, msg) in bad {
            report.add(Violation::new(
                format!("C13/generated-module-rejected/{}", k),
                format!("{} ({}): {}", spec.name, spec.describe(), msg),
                json!({"space": "c13-probe", "definition": spec.name, "history": spec.describe(), "stage": k}),
            ));
        }
        if samples.len() < 3 && spec.name.ends_with('7') {
            samples.push(json!({"definition": spec.name, "history": spec.describe(), "fragment_selections": 4}));
        }
    }
    let mut seen = std::collections::BTreeSet::new();
    report.violations.retain(|v| seen.insert(v.key.clone()));
    if args.replay.is_some() {
        for v in &report.violations {
            println!("REPLAY-VIOLATION property=C13 key={} :: {}", v.key, v.what);
        }
        return if report.violations.is_empty() { println!("REPLAY-OK property=C13"); 0 } else { 1 };
    }
    report
        .cov("states", (family.len() + extra.len()) as u64)
        .cov("transitions", (family.len() * 4 + extra.len()) as u64)
        .cov("traces_validated_against_impl", (family.len() * 4 + extra.len()) as u64)
        .cov("samples", samples)
        .cov("exhaustive", true)
        .cov("part_b", json!({"definitions_type_checked": family.len(), "fragment_selections": ["default", "clone", "serde", "clone+serde"], "modules_type_checked": family.len() * 4, "modules_with_restricted_auto_trait_fields": extra.len()}));
    report.assume("part (b): field names f<i>, field types from the instrumented menu (nameable, implement Clone and serde): the statement's preconditions hold by construction; rustc --emit=metadata is the oracle");
    report.finish()
}
