//! C13 (b) — every module of engine B's definition family compiles against the runtime with any
//! selection of the optional fragments.

use vcommon::{json, Args, Report, Violation};

use crate::{rustc, Externs, PRELUDE};

const CONFIGS: [(&str, bool, bool); 4] = [("default", false, false), ("clone", true, false), ("serde", false, true), ("clone+serde", true, true)];

pub fn main(args: &Args, ext: &Externs) -> i32 {
    let t0 = std::time::Instant::now();
    let mut family = defgen::family(args.tier.as_str());
    if let Some(p) = &args.replay {
        let d = vcommon::read_replay(p);
        let name = d["case"]["definition"].as_str().unwrap_or("").to_owned();
        family.retain(|f| f.name == name);
    }
    let dir = crate::work_dir("C13");
    // one rustc run per definition (its four modules side by side); on failure, one per module
    let results = crate::parallel(family.len(), |i| {
        let spec = &family[i];
        let built = match std::panic::catch_unwind(|| defgen::build(spec)) {
            Ok(b) => b,
            Err(p) => return vec![("build".to_owned(), format!("building the definition panicked: {}", vcommon::panic_message(&*p)))],
        };
        let mut mods = vec![];
        for (name, clone, serde) in CONFIGS {
            match std::panic::catch_unwind(std::panic::AssertUnwindSafe(|| defgen::generate_module(&built.def, clone, serde))) {
                Ok(code) => mods.push((name, code)),
                Err(p) => return vec![(format!("generate/{}", name), format!("generate() panicked: {}", vcommon::panic_message(&*p)))],
            }
        }
        let all = format!("{}{}", PRELUDE, mods.iter().enumerate().map(|(k, (_, c))| format!("pub mod m{} {{\n{}\n}}\n", k, c)).collect::<String>());
        let path = dir.join(format!("def{}.rs", i));
        std::fs::write(&path, all).unwrap();
        let r = rustc(ext, &path, &["truc_runtime", "static_assertions", "vtypes", "serde"], None);
        let _ = std::fs::remove_file(&path);
        if r.ok {
            return vec![];
        }
        let mut bad = vec![];
        for (k, (name, code)) in mods.iter().enumerate() {
            let path = dir.join(format!("def{}_{}.rs", i, k));
            std::fs::write(&path, format!("{}pub mod m {{\n{}\n}}\n", PRELUDE, code)).unwrap();
            let r = rustc(ext, &path, &["truc_runtime", "static_assertions", "vtypes", "serde"], None);
            let _ = std::fs::remove_file(&path);
            if !r.ok {
                bad.push((format!("compile/{}", name), r.stderr.lines().filter(|l| l.starts_with("error")).take(3).collect::<Vec<_>>().join(" | ")));
            }
        }
        if bad.is_empty() {
            bad.push(("compile/combined".to_owned(), r.stderr.lines().filter(|l| l.starts_with("error")).take(3).collect::<Vec<_>>().join(" | ")));
        }
        bad
    });
    let mut report = Report::new("probes", args, "model_checking");
    report.start = t0;
    report.merge_tag = Some("b".to_owned());
    let mut samples = vec![];
    for (spec, bad) in family.iter().zip(results.iter()) {
        for (k, msg) in bad {
            report.add(Violation::new(
                format!("C13/generated-module-rejected/{}", k),
                format!("{} ({}): {}", spec.name, spec.describe(), msg),
                json!({"space": "c13-probe", "definition": spec.name, "history": spec.describe(), "stage": k}),
            ));
        }
        if samples.len() < 3 && spec.name.ends_with('7') {
            samples.push(json!({"definition": spec.name, "history": spec.describe(), "fragment_selections": 4}));
        }
    }
    let mut seen = std::collections::BTreeSet::new();
    report.violations.retain(|v| seen.insert(v.key.clone()));
    if args.replay.is_some() {
        for v in &report.violations {
            println!("REPLAY-VIOLATION property=C13 key={} :: {}", v.key, v.what);
        }
        return if report.violations.is_empty() { println!("REPLAY-OK property=C13"); 0 } else { 1 };
    }
    report
        .cov("states", family.len() as u64)
        .cov("transitions", (family.len() * 4) as u64)
        .cov("traces_validated_against_impl", (family.len() * 4) as u64)
        .cov("samples", samples)
        .cov("exhaustive", true)
        .cov("part_b", json!({"definitions_type_checked": family.len(), "fragment_selections": ["default", "clone", "serde", "clone+serde"], "modules_type_checked": family.len() * 4}));
    report.assume("part (b): field names f<i>, field types from the instrumented menu (nameable, implement Clone and serde): the statement's preconditions hold by construction; rustc --emit=metadata is the oracle");
    report.finish()
}
