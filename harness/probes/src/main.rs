//! Engine D — finite configuration families decided with the Rust compiler as oracle.
//!   C11: perturbed type information must not compile
//!   C13: (b) every module of engine B's family type-checks under every fragment selection
//!   C14: auto traits of generated records follow their fields
//!   C17: recorded type names denote the same type; table lookups accept every spelling
//! Every probe is a concrete program built from the real `generate()` / the real resolvers and
//! handed to `rustc` against rlibs that cargo built from /repo's working tree.

mod c11;
mod c13;
mod c14;
mod c17;
mod iface;

use std::{
    collections::BTreeMap,
    path::{Path, PathBuf},
    process::Command,
    sync::{
        atomic::{AtomicUsize, Ordering},
        Mutex,
    },
};

pub struct Externs {
    pub map: BTreeMap<String, PathBuf>,
    pub deps_dir: PathBuf,
}

impl Externs {
    pub fn load() -> Self {
        let path = std::env::var("VERIF_PROBE_DEPS").unwrap_or_else(|_| vcommon::verif_root().join("work/probe_deps.json").display().to_string());
        let text = std::fs::read_to_string(&path).unwrap_or_else(|e| vcommon::machinery_error(&format!("cannot read {}: {}", path, e)));
        let mut map = BTreeMap::new();
        let mut deps_dir = None;
        for line in text.lines() {
            let v: serde_json::Value = match serde_json::from_str(line) {
                Ok(v) => v,
                Err(_) => continue,
            };
            if v["reason"] != "compiler-artifact" {
                continue;
            }
            let kind = v["target"]["kind"][0].as_str().unwrap_or("");
            if kind != "lib" && kind != "proc-macro" {
                continue;
            }
            let name = v["target"]["name"].as_str().unwrap_or("").replace('-', "_");
            for f in v["filenames"].as_array().cloned().unwrap_or_default() {
                let f = f.as_str().unwrap_or("");
                if f.ends_with(".rlib") {
                    let p = PathBuf::from(f);
                    if p.parent().map_or(false, |d| d.ends_with("deps")) {
                        deps_dir = p.parent().map(Path::to_path_buf);
                    }
                    map.insert(name.clone(), p);
                }
            }
        }
        for need in ["truc", "truc_runtime", "vtypes", "usertypes", "static_assertions", "serde", "serde_json", "bincode", "reccore"] {
            if !map.contains_key(need) {
                vcommon::machinery_error(&format!("rlib of {} not found in {}", need, path));
            }
        }
        Externs { map, deps_dir: deps_dir.unwrap_or_else(|| vcommon::machinery_error("deps dir not found")) }
    }
}

pub struct RustcResult {
    pub ok: bool,
    pub stderr: String,
}

/// Type-checks (`--emit=metadata`) or builds (`bin`) one source file.
pub fn rustc(ext: &Externs, src: &Path, crates: &[&str], bin_out: Option<&Path>) -> RustcResult {
    let mut cmd = Command::new("rustc");
    cmd.arg("--edition").arg("2021").arg("--color").arg("never").arg("--cap-lints").arg("allow");
    cmd.arg("-L").arg(format!("dependency={}", ext.deps_dir.display()));
    for c in crates {
        cmd.arg("--extern").arg(format!("{}={}", c, ext.map[*c].display()));
    }
    let tmp_out;
    match bin_out {
        Some(out) => {
            cmd.arg("--crate-type").arg("bin").arg("-C").arg("debuginfo=0").arg("-C").arg("opt-level=0").arg("-o").arg(out);
            tmp_out = None;
        }
        None => {
            let o = src.with_extension("rmeta");
            cmd.arg("--crate-type").arg("lib").arg("--emit=metadata").arg("-o").arg(&o);
            tmp_out = Some(o);
        }
    }
    cmd.arg(src);
    let out = cmd.output().unwrap_or_else(|e| vcommon::machinery_error(&format!("cannot run rustc: {}", e)));
    if let Some(o) = tmp_out {
        let _ = std::fs::remove_file(o);
    }
    RustcResult { ok: out.status.success(), stderr: String::from_utf8_lossy(&out.stderr).to_string() }
}

/// Runs `f` over `0..n` on all cores, collecting the results in order.
pub fn parallel<T: Send>(n: usize, f: impl Fn(usize) -> T + Sync) -> Vec<T> {
    let threads = std::thread::available_parallelism().map(|x| x.get()).unwrap_or(4);
    let cursor = AtomicUsize::new(0);
    let out: Mutex<Vec<Option<T>>> = Mutex::new((0..n).map(|_| None).collect());
    std::thread::scope(|s| {
        for _ in 0..threads {
            s.spawn(|| loop {
                let i = cursor.fetch_add(1, Ordering::Relaxed);
                if i >= n {
                    break;
                }
                let r = f(i);
                out.lock().unwrap()[i] = Some(r);
            });
        }
    });
    out.into_inner().unwrap().into_iter().map(|x| x.unwrap()).collect()
}

pub fn work_dir(prop: &str) -> PathBuf {
    let d = vcommon::verif_root().join("work").join("probes").join(prop);
    let _ = std::fs::remove_dir_all(&d);
    std::fs::create_dir_all(&d).unwrap_or_else(|e| vcommon::machinery_error(&format!("mkdir {}: {}", d.display(), e)));
    d
}

pub const PRELUDE: &str = "#![allow(dead_code, unused, clippy::all)]\n#[macro_use]\nextern crate static_assertions;\nextern crate alloc;\n";

fn main() {
    let args = vcommon::parse_args();
    vcommon::quiet_panics();
    let ext = Externs::load();
    if args.rest.iter().any(|a| a == "--iface") {
        std::process::exit(iface::main(&args, &ext));
    }
    let code = match args.property.as_str() {
        "C11" => c11::main(&args, &ext),
        "C13" => c13::main(&args, &ext),
        "C14" => c14::main(&args, &ext),
        "C17" => c17::main(&args, &ext),
        _ => vcommon::machinery_error("probes serves C11 C13 C14 C17"),
    };
    std::process::exit(code);
}
