//! C14 — a record is Send / Sync only if all its fields are, and whenever they are.

use truc::{
    generator::{config::GeneratorConfig, generate},
    record::{definition::builder::native::NativeRecordDefinitionBuilder, type_resolver::HostTypeResolver},
};
use vcommon::{json, Args, Report, Violation};

use crate::{rustc, Externs, PRELUDE};

type B = NativeRecordDefinitionBuilder<HostTypeResolver>;

struct Kind {
    name: &'static str,
    send: bool,
    sync: bool,
    add: fn(&mut B, &str) -> truc::record::definition::DatumId,
}

macro_rules! kind {
    ($t:ident, $send:expr, $sync:expr) => {
        Kind { name: stringify!($t), send: $send, sync: $sync, add: |b, n| b.add_datum::<usertypes::$t, _>(n).unwrap() }
    };
}

macro_rules! kind_uninit {
    ($label:expr, $t:ident, $send:expr, $sync:expr, $uninit:expr) => {
        Kind {
            name: $label,
            send: $send,
            sync: $sync,
            add: |b, n| if $uninit { b.add_datum_allow_uninit::<usertypes::$t, _>(n).unwrap() } else { b.add_datum::<usertypes::$t, _>(n).unwrap() },
        }
    };
}

fn kinds() -> Vec<Kind> {
    vec![
        kind!(Both, true, true),
        kind!(SendOnly, true, false),
        kind!(SendOnlyWrapped, true, false),
        kind!(SyncOnly, false, true),
        kind!(Neither, false, false),
        kind!(NeitherWrapped, false, false),
        kind!(RawPtr, false, false),
        // `Copy` kinds, added as ordinary data and as data that may stay uninitialised
        kind_uninit!("BothCopy", BothCopy, true, true, false),
        kind_uninit!("BothCopy?", BothCopy, true, true, true),
        kind_uninit!("SendOnlyCopy", SendOnlyCopy, true, false, false),
        kind_uninit!("SendOnlyCopy?", SendOnlyCopy, true, false, true),
        kind_uninit!("SyncOnlyCopy", SyncOnlyCopy, false, true, false),
        kind_uninit!("SyncOnlyCopy?", SyncOnlyCopy, false, true, true),
        kind_uninit!("NeitherCopy", NeitherCopy, false, false, false),
        kind_uninit!("NeitherCopy?", NeitherCopy, false, false, true),
        kind_uninit!("NeitherRefCopy?", NeitherRefCopy, false, false, true),
    ]
}

#[derive(Clone, Copy, Debug)]
enum Shape {
    /// the subject only in variant 0 (removed in variant 1)
    FirstOnly,
    /// the subject added in variant 1
    LaterOnly,
    /// in both variants
    Both,
    /// the subject alone in a single-variant record
    Alone,
    /// two data of the subject's type; one of them removed in variant 1
    TwinsOneRemoved,
    /// two data of the subject's type; both removed in variant 1, one added again in variant 2
    TwinsBothRemovedOneBack,
    /// the subject and a datum of another restricted type; the subject removed in variant 1
    WithNeitherSubjectRemoved,
}

const PROBE: &str = r#"
mod probe {
    pub struct P<T: ?Sized>(core::marker::PhantomData<T>);
    pub trait NotSend { const SEND: bool = false; }
    impl<T: ?Sized> NotSend for P<T> {}
    impl<T: ?Sized + Send> P<T> { pub const SEND: bool = true; }
    pub trait NotSync { const SYNC: bool = false; }
    impl<T: ?Sized> NotSync for P<T> {}
    impl<T: ?Sized + Sync> P<T> { pub const SYNC: bool = true; }
}
#[allow(unused_imports)]
use probe::{NotSend, NotSync};
"#;


// ---------------------------------------------------------------------------------------------
// Second family: engine B's definitions. Every typed addition of every definition is, in turn,
// replaced by a field of a restricted kind; all the other fields are Send + Sync (vtypes).
// One rustc run per case asserts the expected answer for every record type and both traits; only
// when that run is rejected are the questions asked one by one.
// ---------------------------------------------------------------------------------------------

const FAMILY_KINDS: [&str; 8] = ["SendOnly", "SyncOnly", "Neither", "RawPtr", "BothCopy?", "SendOnlyCopy?", "SyncOnlyCopy?", "NeitherCopy?"];

struct FamOutcome {
    expect: Vec<(bool, bool)>,
    observed: Vec<(bool, bool)>,
}

fn family_case(ext: &Externs, dir: &std::path::Path, i: usize, spec: &defgen::DefSpec, slot: usize, kind: &Kind) -> Result<FamOutcome, String> {
    let subject = std::cell::Cell::new(None);
    let add = |b: &mut defgen::Builder, name: &str, _t: usize, _uninit: bool| {
        let id = (kind.add)(b, name);
        subject.set(Some(id));
        Ok(id)
    };
    let built = std::panic::catch_unwind(std::panic::AssertUnwindSafe(|| defgen::build_with(spec, Some(&defgen::Subject { slot, add: &add })))).map_err(|e| format!("builder panicked: {}", vcommon::panic_message(&e)))?;
    let id = subject.get().ok_or("the subject was never added")?;
    let expect: Vec<(bool, bool)> = built
        .def
        .variants()
        .map(|v| if v.data().any(|d| d == id) { (kind.send, kind.sync) } else { (true, true) })
        .collect();
    let code = std::panic::catch_unwind(std::panic::AssertUnwindSafe(|| generate(&built.def, &GeneratorConfig::default()))).map_err(|e| format!("generate panicked: {}", vcommon::panic_message(&e)))?;
    let externs = ["truc_runtime", "static_assertions", "usertypes", "vtypes"];
    let ask = |file: String, body: String| -> Result<bool, String> {
        let path = dir.join(file);
        std::fs::write(&path, format!("{}pub mod m {{\n{}\n}}\n{}\n{}", PRELUDE, code, PROBE, body)).unwrap();
        let r = rustc(ext, &path, &externs, None);
        let _ = std::fs::remove_file(&path);
        if r.ok {
            Ok(true)
        } else if r.stderr.contains("assert") || r.stderr.contains("evaluation") {
            Ok(false)
        } else {
            Err(r.stderr.lines().filter(|l| l.starts_with("error")).take(3).collect::<Vec<_>>().join(" | "))
        }
    };
    let mut all = String::new();
    for (v, e) in expect.iter().enumerate() {
        all.push_str(&format!("const _: () = assert!(<probe::P<m::Record{}>>::SEND == {});\nconst _: () = assert!(<probe::P<m::Record{}>>::SYNC == {});\n", v, e.0, v, e.1));
    }
    if ask(format!("fam{}.rs", i), all)? {
        return Ok(FamOutcome { observed: expect.clone(), expect });
    }
    let mut observed = vec![];
    for v in 0..expect.len() {
        let send = ask(format!("fam{}_{}_s.rs", i, v), format!("const _: () = assert!(<probe::P<m::Record{}>>::SEND);\n", v))?;
        let sync = ask(format!("fam{}_{}_y.rs", i, v), format!("const _: () = assert!(<probe::P<m::Record{}>>::SYNC);\n", v))?;
        observed.push((send, sync));
    }
    Ok(FamOutcome { expect, observed })
}

pub fn main(args: &Args, ext: &Externs) -> i32 {
    let t0 = std::time::Instant::now();
    let ks = kinds();
    let mut cases: Vec<(usize, Shape)> = vec![];
    for k in 0..ks.len() {
        for s in [Shape::FirstOnly, Shape::LaterOnly, Shape::Both, Shape::Alone, Shape::TwinsOneRemoved, Shape::TwinsBothRemovedOneBack, Shape::WithNeitherSubjectRemoved] {
            cases.push((k, s));
        }
    }
    if let Some(p) = &args.replay {
        let d = vcommon::read_replay(p);
        let (k, s) = (d["case"]["field_kind"].as_str().unwrap_or("").to_owned(), d["case"]["shape"].as_str().unwrap_or("").to_owned());
        cases.retain(|c| ks[c.0].name == k && format!("{:?}", c.1) == s);
    }
    let mut fam_defs = if args.tier == vcommon::Tier::Thorough { defgen::family("quick") } else { defgen::zoo() };
    if args.tier != vcommon::Tier::Thorough {
        // wide records: twelve fields (two-digit positions), and thirteen in one variant
        fam_defs.extend(defgen::wide().into_iter().take(2));
    }
    {
        let t = |n: &str| defgen::type_index(n);
        let add: Vec<(usize, bool)> = ["Pod4", "Own8", "Pod2", "Own3", "Pod1", "Pod8", "OwnBox", "Pod4", "Pod2", "Own1", "Pod4", "Pod1", "Own12"].iter().enumerate().map(|(i, n)| (t(n), i % 5 == 0)).collect();
        fam_defs.push(defgen::DefSpec { name: "thirteen".to_owned(), steps: vec![defgen::DStep { remove: vec![], ghost: false, ghost_late: false, add, strat: 0 }], reuse_names: false });
    }
    let mut fam_cases: Vec<(usize, usize, usize)> = vec![];
    for (d, spec) in fam_defs.iter().enumerate() {
        for slot in 0..spec.slots() {
            for name in FAMILY_KINDS {
                fam_cases.push((d, slot, ks.iter().position(|k| k.name == name).expect("kind")));
            }
        }
    }
    if let Some(p) = &args.replay {
        let d = vcommon::read_replay(p);
        if d["case"]["space"] == "c14-family" {
            cases.clear();
            let (name, slot, kind) = (d["case"]["definition"].as_str().unwrap_or("").to_owned(), d["case"]["slot"].as_u64().unwrap_or(u64::MAX) as usize, d["case"]["field_kind"].as_str().unwrap_or("").to_owned());
            fam_cases.retain(|c| fam_defs[c.0].name == name && c.1 == slot && ks[c.2].name == kind);
        } else {
            fam_cases.clear();
        }
    }
    let dir = crate::work_dir("C14");
    // per case: for each record and each trait, what the record is (decided by the compiler)
    let results = crate::parallel(cases.len(), |i| {
        let (k, shape) = cases[i];
        let kind = &ks[k];
        let mut b: B = NativeRecordDefinitionBuilder::new(HostTypeResolver);
        // expected (send, sync) per variant = conjunction over the fields of that variant
        let mut expect: Vec<(bool, bool)> = vec![];
        match shape {
            Shape::FirstOnly => {
                let id = (kind.add)(&mut b, "subject");
                b.add_datum::<u32, _>("plain").unwrap();
                b.close_record_variant();
                b.remove_datum(id).unwrap();
                b.add_datum::<String, _>("text").unwrap();
                b.close_record_variant();
                expect.push((kind.send, kind.sync));
                expect.push((true, true));
            }
            Shape::LaterOnly => {
                b.add_datum::<u32, _>("plain").unwrap();
                b.close_record_variant();
                (kind.add)(&mut b, "subject");
                b.close_record_variant();
                expect.push((true, true));
                expect.push((kind.send, kind.sync));
            }
            Shape::Both => {
                (kind.add)(&mut b, "subject");
                b.close_record_variant();
                b.add_datum::<Vec<u8>, _>("bytes").unwrap();
                b.close_record_variant();
                expect.push((kind.send, kind.sync));
                expect.push((kind.send, kind.sync));
            }
            Shape::Alone => {
                (kind.add)(&mut b, "subject");
                b.close_record_variant();
                expect.push((kind.send, kind.sync));
            }
            Shape::TwinsOneRemoved => {
                let first = (kind.add)(&mut b, "subject");
                (kind.add)(&mut b, "twin");
                b.add_datum::<u16, _>("plain").unwrap();
                b.close_record_variant();
                b.remove_datum(first).unwrap();
                b.close_record_variant();
                b.add_datum::<u8, _>("more").unwrap();
                b.close_record_variant();
                expect.push((kind.send, kind.sync));
                expect.push((kind.send, kind.sync));
                expect.push((kind.send, kind.sync));
            }
            Shape::TwinsBothRemovedOneBack => {
                let first = (kind.add)(&mut b, "subject");
                let second = (kind.add)(&mut b, "twin");
                b.close_record_variant();
                b.remove_datum(first).unwrap();
                b.remove_datum(second).unwrap();
                b.add_datum::<u32, _>("plain").unwrap();
                b.close_record_variant();
                (kind.add)(&mut b, "back");
                b.close_record_variant();
                expect.push((kind.send, kind.sync));
                expect.push((true, true));
                expect.push((kind.send, kind.sync));
            }
            Shape::WithNeitherSubjectRemoved => {
                let first = (kind.add)(&mut b, "subject");
                b.add_datum::<usertypes::Neither, _>("other").unwrap();
                b.close_record_variant();
                b.remove_datum(first).unwrap();
                b.close_record_variant();
                expect.push((false, false));
                expect.push((false, false));
            }
        }
        let def = b.build();
        let code = generate(&def, &GeneratorConfig::default());
        // one probe file per question, so that the compiler's verdict is a plain accept/reject
        let mut observed = vec![];
        for (v, _) in expect.iter().enumerate() {
            let mut row = [false, false];
            for (ti, (tname, cname)) in [("Send", "SEND"), ("Sync", "SYNC")].iter().enumerate() {
                let _ = tname;
                let src = format!(
                    "{}pub mod m {{\n{}\n}}\n{}\nconst _: () = assert!(<probe::P<m::Record{}>>::{});\n",
                    PRELUDE, code, PROBE, v, cname
                );
                let path = dir.join(format!("case{}_{}_{}.rs", i, v, ti));
                std::fs::write(&path, src).unwrap();
                let r = rustc(ext, &path, &["truc_runtime", "static_assertions", "usertypes"], None);
                let _ = std::fs::remove_file(&path);
                if r.ok {
                    row[ti] = true;
                } else if !r.stderr.contains("assert") && !r.stderr.contains("evaluation") {
                    return Err(r.stderr.lines().filter(|l| l.starts_with("error")).take(3).collect::<Vec<_>>().join(" | "));
                }
            }
            observed.push((row[0], row[1]));
        }
        Ok((expect, observed))
    });
    let mut report = Report::new("probes", args, "exploration");
    report.start = t0;
    let mut n = 0u64;
    let mut nontrivial = 0u64;
    let mut samples = vec![];
    for ((k, shape), r) in cases.iter().zip(results.iter()) {
        let kind = &ks[*k];
        let case = json!({"space": "c14-probe", "field_kind": kind.name, "field_is": {"Send": kind.send, "Sync": kind.sync}, "shape": format!("{:?}", shape)});
        match r {
            Err(e) => vcommon::machinery_error(&format!("C14 probe does not compile for an unrelated reason ({} {:?}): {}", kind.name, shape, e)),
            Ok((expect, observed)) => {
                for (v, (e, o)) in expect.iter().zip(observed.iter()).enumerate() {
                    for (tname, want, got) in [("Send", e.0, o.0), ("Sync", e.1, o.1)] {
                        n += 1;
                        if !want {
                            nontrivial += 1;
                        }
                        if got && !want {
                            report.add(Violation::new(
                                format!("C14/only-if/{}/field={}", tname, kind.name),
                                format!("Record{} holds a usertypes::{} field (not {}) and is {} ({:?})", v, kind.name, tname, tname, shape),
                                case.clone(),
                            ));
                        } else if !got && want {
                            report.add(Violation::new(
                                format!("C14/if/{}/field={}", tname, kind.name),
                                format!("all fields of Record{} are {} but the record is not ({:?}, subject kind {})", v, tname, shape, kind.name),
                                case.clone(),
                            ));
                        }
                    }
                }
                if samples.len() < 4 && n % 7 == 0 {
                    samples.push(json!({"case": case, "expected_send_sync_per_variant": expect, "observed": observed}));
                }
            }
        }
    }
    // ---- the family sweep ----
    let fam_results = crate::parallel(fam_cases.len(), |i| {
        let (d, slot, k) = fam_cases[i];
        family_case(ext, &dir, i, &fam_defs[d], slot, &ks[k])
    });
    let (mut fam_n, mut fam_nontrivial) = (0u64, 0u64);
    for ((d, slot, k), r) in fam_cases.iter().zip(fam_results.iter()) {
        let (spec, kind) = (&fam_defs[*d], &ks[*k]);
        let case = json!({"space": "c14-family", "definition": spec.name, "history": spec.describe(), "slot": slot, "field_kind": kind.name, "field_is": {"Send": kind.send, "Sync": kind.sync}});
        match r {
            Err(e) => vcommon::machinery_error(&format!("C14 family probe does not compile for an unrelated reason ({} slot {} {}): {}", spec.name, slot, kind.name, e)),
            Ok(o) => {
                for (v, (e, g)) in o.expect.iter().zip(o.observed.iter()).enumerate() {
                    for (tname, want, got) in [("Send", e.0, g.0), ("Sync", e.1, g.1)] {
                        fam_n += 1;
                        if !want {
                            fam_nontrivial += 1;
                        }
                        if got && !want {
                            report.add(Violation::new(
                                format!("C14/only-if/{}/field={}", tname, kind.name),
                                format!("{} ({}) with addition #{} replaced by a usertypes::{} field (not {}): Record{} holds it and is {}", spec.name, spec.describe(), slot, kind.name, tname, v, tname),
                                case.clone(),
                            ));
                        } else if !got && want {
                            report.add(Violation::new(
                                format!("C14/if/{}/field={}", tname, kind.name),
                                format!("{} ({}) with addition #{} replaced by a usertypes::{} field: all fields of Record{} are {} but the record is not", spec.name, spec.describe(), slot, kind.name, v, tname),
                                case.clone(),
                            ));
                        }
                    }
                }
            }
        }
    }
    n += fam_n;
    nontrivial += fam_nontrivial;
    // one violation per key (the hand-written shapes come first)
    let mut seen = std::collections::BTreeSet::new();
    report.violations.retain(|v| seen.insert(v.key.clone()));
    if args.replay.is_some() {
        let known = vcommon::KnownFindings::load();
        let mut bad = 0;
        for v in &report.violations {
            if known.is_known("C14", &v.key) {
                println!("KNOWN-FINDING: property=C14 key={} {}", v.key, v.what);
            } else {
                println!("REPLAY-VIOLATION property=C14 key={} :: {}", v.key, v.what);
                bad += 1;
            }
        }
        return if bad == 0 { println!("REPLAY-OK property=C14"); 0 } else { 1 };
    }
    report
        .cov("evaluations", n)
        .cov("distinct_nontrivial", nontrivial)
        .cov("rule", "every field kind of {Send+Sync, Send-only (Cell, wrapped Cell), Sync-only, neither (Rc, wrapped Rc), raw pointer; and Copy types of each of the four classes, added as ordinary data and (name ending in '?') as data that may stay uninitialised} x {only in the first variant, only in a later variant, in both, alone, two data of the type with one removed, both removed and one added back, next to another restricted type and removed} -> for every generated RecordK and each of Send / Sync the compiler decides (inherent-const-over-blanket-trait probe, rustc --emit=metadata) whether the record implements the trait; it must equal the conjunction over that variant's fields. evaluations = (record, trait) questions; non-trivial = questions whose expected answer is 'no'")
        .cov("samples", samples)
        .cov("exhaustive", true)
        .cov("second_family", json!({"rule": "every typed addition of every definition of engine B's family (quick: the zoo; thorough: engine B's quick family) is in turn replaced by a field of each kind of {Send-only, Sync-only, neither, raw pointer, and the four Copy classes added as may-stay-uninitialised}; all other fields are Send + Sync; one rustc run asserts the expected answer for every record type and both traits", "definitions": fam_defs.len(), "cases": fam_cases.len(), "questions": fam_n, "questions_expecting_no": fam_nontrivial}))
        .cov("field_kinds", ks.iter().map(|k| json!([k.name, k.send, k.sync])).collect::<Vec<_>>());
    report.assume("the 'schedules' quantifier is discharged at type level: if no record is Send/Sync unless its fields are, safe code cannot build the racing schedule; no interleaving is explored");
    report.finish()
}
