//! C14 — a record is Send / Sync only if all its fields are, and whenever they are.

use truc::{
    generator::{config::GeneratorConfig, generate},
    record::{definition::builder::native::NativeRecordDefinitionBuilder, type_resolver::HostTypeResolver},
};
use vcommon::{json, Args, Report, Violation};

use crate::{rustc, Externs, PRELUDE};

type B = NativeRecordDefinitionBuilder<HostTypeResolver>;

struct Kind {
    name: &'static str,
    send: bool,
    sync: bool,
    add: fn(&mut B, &str) -> truc::record::definition::DatumId,
}

macro_rules! kind {
    ($t:ident, $send:expr, $sync:expr) => {
        Kind { name: stringify!($t), send: $send, sync: $sync, add: |b, n| b.add_datum::<usertypes::$t, _>(n).unwrap() }
    };
}

macro_rules! kind_uninit {
    ($label:expr, $t:ident, $send:expr, $sync:expr, $uninit:expr) => {
        Kind {
            name: $label,
            send: $send,
            sync: $sync,
            add: |b, n| if $uninit { b.add_datum_allow_uninit::<usertypes::$t, _>(n).unwrap() } else { b.add_datum::<usertypes::$t, _>(n).unwrap() },
        }
    };
}

fn kinds() -> Vec<Kind> {
    vec![
        kind!(Both, true, true),
        kind!(SendOnly, true, false),
        kind!(SendOnlyWrapped, true, false),
        kind!(SyncOnly, false, true),
        kind!(Neither, false, false),
        kind!(NeitherWrapped, false, false),
        kind!(RawPtr, false, false),
        // `Copy` kinds, added as ordinary data and as data that may stay uninitialised
        kind_uninit!("BothCopy", BothCopy, true, true, false),
        kind_uninit!("BothCopy?", BothCopy, true, true, true),
        kind_uninit!("SendOnlyCopy", SendOnlyCopy, true, false, false),
        kind_uninit!("SendOnlyCopy?", SendOnlyCopy, true, false, true),
        kind_uninit!("SyncOnlyCopy", SyncOnlyCopy, false, true, false),
        kind_uninit!("SyncOnlyCopy?", SyncOnlyCopy, false, true, true),
        kind_uninit!("NeitherCopy", NeitherCopy, false, false, false),
        kind_uninit!("NeitherCopy?", NeitherCopy, false, false, true),
        kind_uninit!("NeitherRefCopy?", NeitherRefCopy, false, false, true),
    ]
}

#[derive(Clone, Copy, Debug)]
enum Shape {
    /// the subject only in variant 0 (removed in variant 1)
    FirstOnly,
    /// the subject added in variant 1
    LaterOnly,
    /// in both variants
    Both,
    /// the subject alone in a single-variant record
    Alone,
    /// two data of the subject's type; one of them removed in variant 1
    TwinsOneRemoved,
    /// two data of the subject's type; both removed in variant 1, one added again in variant 2
    TwinsBothRemovedOneBack,
    /// the subject and a datum of another restricted type; the subject removed in variant 1
    WithNeitherSubjectRemoved,
}

const PROBE: &str = r#"
mod probe {
    pub struct P<T: ?Sized>(core::marker::PhantomData<T>);
    pub trait NotSend { const SEND: bool = false; }
    impl<T: ?Sized> NotSend for P<T> {}
    impl<T: ?Sized + Send> P<T> { pub const SEND: bool = true; }
    pub trait NotSync { const SYNC: bool = false; }
    impl<T: ?Sized> NotSync for P<T> {}
    impl<T: ?Sized + Sync> P<T> { pub const SYNC: bool = true; }
}
#[allow(unused_imports)]
use probe::{NotSend, NotSync};
"#;

pub fn main(args: &Args, ext: &Externs) -> i32 {
    let t0 = std::time::Instant::now();
    let ks = kinds();
    let mut cases: Vec<(usize, Shape)> = vec![];
    for k in 0..ks.len() {
        for s in [Shape::FirstOnly, Shape::LaterOnly, Shape::Both, Shape::Alone, Shape::TwinsOneRemoved, Shape::TwinsBothRemovedOneBack, Shape::WithNeitherSubjectRemoved] {
            cases.push((k, s));
        }
    }
    if let Some(p) = &args.replay {
        let d = vcommon::read_replay(p);
        let (k, s) = (d["case"]["field_kind"].as_str().unwrap_or("").to_owned(), d["case"]["shape"].as_str().unwrap_or("").to_owned());
        cases.retain(|c| ks[c.0].name == k && format!("{:?}", c.1) == s);
    }
    let dir = crate::work_dir("C14");
    // per case: for each record and each trait, what the record is (decided by the compiler)
    let results = crate::parallel(cases.len(), |i| {
        let (k, shape) = cases[i];
        let kind = &ks[k];
        let mut b: B = NativeRecordDefinitionBuilder::new(HostTypeResolver);
        // expected (send, sync) per variant = conjunction over the fields of that variant
        let mut expect: Vec<(bool, bool)> = vec![];
        match shape {
            Shape::FirstOnly => {
                let id = (kind.add)(&mut b, "subject");
                b.add_datum::<u32, _>("plain").unwrap();
                b.close_record_variant();
                b.remove_datum(id).unwrap();
                b.add_datum::<String, _>("text").unwrap();
                b.close_record_variant();
                expect.push((kind.send, kind.sync));
                expect.push((true, true));
            }
            Shape::LaterOnly => {
                b.add_datum::<u32, _>("plain").unwrap();
                b.close_record_variant();
                (kind.add)(&mut b, "subject");
                b.close_record_variant();
                expect.push((true, true));
                expect.push((kind.send, kind.sync));
            }
            Shape::Both => {
                (kind.add)(&mut b, "subject");
                b.close_record_variant();
                b.add_datum::<Vec<u8>, _>("bytes").unwrap();
                b.close_record_variant();
                expect.push((kind.send, kind.sync));
                expect.push((kind.send, kind.sync));
            }
            Shape::Alone => {
                (kind.add)(&mut b, "subject");
                b.close_record_variant();
                expect.push((kind.send, kind.sync));
            }
            Shape::TwinsOneRemoved => {
                let first = (kind.add)(&mut b, "subject");
                (kind.add)(&mut b, "twin");
                b.add_datum::<u16, _>("plain").unwrap();
                b.close_record_variant();
                b.remove_datum(first).unwrap();
                b.close_record_variant();
                b.add_datum::<u8, _>("more").unwrap();
                b.close_record_variant();
                expect.push((kind.send, kind.sync));
                expect.push((kind.send, kind.sync));
                expect.push((kind.send, kind.sync));
            }
            Shape::TwinsBothRemovedOneBack => {
                let first = (kind.add)(&mut b, "subject");
                let second = (kind.add)(&mut b, "twin");
                b.close_record_variant();
                b.remove_datum(first).unwrap();
                b.remove_datum(second).unwrap();
                b.add_datum::<u32, _>("plain").unwrap();
                b.close_record_variant();
                (kind.add)(&mut b, "back");
                b.close_record_variant();
                expect.push((kind.send, kind.sync));
                expect.push((true, true));
                expect.push((kind.send, kind.sync));
            }
            Shape::WithNeitherSubjectRemoved => {
                let first = (kind.add)(&mut b, "subject");
                b.add_datum::<usertypes::Neither, _>("other").unwrap();
                b.close_record_variant();
                b.remove_datum(first).unwrap();
                b.close_record_variant();
                expect.push((false, false));
                expect.push((false, false));
            }
        }
        let def = b.build();
        let code = generate(&def, &GeneratorConfig::default());
        // one probe file per question, so that the compiler's verdict is a plain accept/reject
        let mut observed = vec![];
        for (v, _) in expect.iter().enumerate() {
            let mut row = [false, false];
            for (ti, (tname, cname)) in [("Send", "SEND"), ("Sync", "SYNC")].iter().enumerate() {
                let _ = tname;
                let src = format!(
                    "{}pub mod m {{\n{}\n}}\n{}\nconst _: () = assert!(<probe::P<m::Record{}>>::{});\n",
                    PRELUDE, code, PROBE, v, cname
                );
                let path = dir.join(format!("case{}_{}_{}.rs", i, v, ti));
                std::fs::write(&path, src).unwrap();
                let r = rustc(ext, &path, &["truc_runtime", "static_assertions", "usertypes"], None);
                let _ = std::fs::remove_file(&path);
                if r.ok {
                    row[ti] = true;
                } else if !r.stderr.contains("assert") && !r.stderr.contains("evaluation") {
                    return Err(r.stderr.lines().filter(|l| l.starts_with("error")).take(3).collect::<Vec<_>>().join(" | "));
                }
            }
            observed.push((row[0], row[1]));
        }
        Ok((expect, observed))
    });
    let mut report = Report::new("probes", args, "exploration");
    report.start = t0;
    let mut n = 0u64;
    let mut nontrivial = 0u64;
    let mut samples = vec![];
    for ((k, shape), r) in cases.iter().zip(results.iter()) {
        let kind = &ks[*k];
        let case = json!({"space": "c14-probe", "field_kind": kind.name, "field_is": {"Send": kind.send, "Sync": kind.sync}, "shape": format!("{:?}", shape)});
        match r {
            Err(e) => vcommon::machinery_error(&format!("C14 probe does not compile for an unrelated reason ({} {:?}): {}", kind.name, shape, e)),
            Ok((expect, observed)) => {
                for (v, (e, o)) in expect.iter().zip(observed.iter()).enumerate() {
                    for (tname, want, got) in [("Send", e.0, o.0), ("Sync", e.1, o.1)] {
                        n += 1;
                        if !want {
                            nontrivial += 1;
                        }
                        if got && !want {
                            report.add(Violation::new(
                                format!("C14/only-if/{}/field={}", tname, kind.name),
                                format!("Record{} holds a usertypes::{} field (not {}) and is {} ({:?})", v, kind.name, tname, tname, shape),
                                case.clone(),
                            ));
                        } else if !got && want {
                            report.add(Violation::new(
                                format!("C14/if/{}/field={}", tname, kind.name),
                                format!("all fields of Record{} are {} but the record is not ({:?}, subject kind {})", v, tname, shape, kind.name),
                                case.clone(),
                            ));
                        }
                    }
                }
                if samples.len() < 4 && n % 7 == 0 {
                    samples.push(json!({"case": case, "expected_send_sync_per_variant": expect, "observed": observed}));
                }
            }
        }
    }
    if args.replay.is_some() {
        let known = vcommon::KnownFindings::load();
        let mut bad = 0;
        for v in &report.violations {
            if known.is_known("C14", &v.key) {
                println!("KNOWN-FINDING: property=C14 key={} {}", v.key, v.what);
            } else {
                println!("REPLAY-VIOLATION property=C14 key={} :: {}", v.key, v.what);
                bad += 1;
            }
        }
        return if bad == 0 { println!("REPLAY-OK property=C14"); 0 } else { 1 };
    }
    report
        .cov("evaluations", n)
        .cov("distinct_nontrivial", nontrivial)
        .cov("rule", "every field kind of {Send+Sync, Send-only (Cell, wrapped Cell), Sync-only, neither (Rc, wrapped Rc), raw pointer; and Copy types of each of the four classes, added as ordinary data and (name ending in '?') as data that may stay uninitialised} x {only in the first variant, only in a later variant, in both, alone, two data of the type with one removed, both removed and one added back, next to another restricted type and removed} -> for every generated RecordK and each of Send / Sync the compiler decides (inherent-const-over-blanket-trait probe, rustc --emit=metadata) whether the record implements the trait; it must equal the conjunction over that variant's fields. evaluations = (record, trait) questions; non-trivial = questions whose expected answer is 'no'")
        .cov("samples", samples)
        .cov("exhaustive", true)
        .cov("field_kinds", ks.iter().map(|k| json!([k.name, k.send, k.sync])).collect::<Vec<_>>());
    report.assume("the 'schedules' quantifier is discharged at type level: if no record is Send/Sync unless its fields are, safe code cannot build the racing schedule; no interleaving is explored");
    report.finish()
}
