//! C11 — wrong type information or a non-Copy uninitialisable field cannot compile.

use truc::{
    generator::{config::GeneratorConfig, generate},
    record::{
        definition::builder::native::{DatumDefinitionOverride, NativeRecordDefinitionBuilder},
        type_resolver::HostTypeResolver,
    },
};
use vcommon::{json, Args, Report, Value, Violation};

use crate::{rustc, Externs, PRELUDE};

type B = NativeRecordDefinitionBuilder<HostTypeResolver>;

struct Ty {
    name: &'static str,
    size: usize,
    align: usize,
    copy: bool,
    add: fn(&mut B, &str, DatumDefinitionOverride),
}

macro_rules! ty {
    ($t:ty, $copy:expr) => {
        Ty {
            name: stringify!($t),
            size: std::mem::size_of::<$t>(),
            align: std::mem::align_of::<$t>(),
            copy: $copy,
            add: |b, n, o| {
                b.add_datum_override::<$t, _>(n, o).expect("add");
            },
        }
    };
}

fn types() -> Vec<Ty> {
    vec![
        ty!(u8, true),
        ty!(u16, true),
        ty!(u32, true),
        ty!(u64, true),
        ty!(u128, true),
        ty!(usize, true),
        ty!(f32, true),
        ty!(f64, true),
        ty!(bool, true),
        ty!(char, true),
        ty!(String, false),
        ty!(Box<str>, false),
        ty!(Vec<u8>, false),
        ty!([u8; 3], true),
        ty!(Option<u32>, true),
        ty!((), true),
        ty!(vtypes::Own8, false),
        ty!(vtypes::Own16a, false),
        ty!(vtypes::OwnZ4, false),
    ]
}

#[derive(Clone, Copy, Debug, PartialEq, Eq)]
enum Pert {
    None,
    SizeMinus1,
    SizePlus1,
    SizeTimes2,
    AlignHalf,
    AlignTimes2,
    UninitFlag,
}

const PERTS: [Pert; 7] = [Pert::None, Pert::SizeMinus1, Pert::SizePlus1, Pert::SizeTimes2, Pert::AlignHalf, Pert::AlignTimes2, Pert::UninitFlag];

#[derive(Clone, Copy, Debug, PartialEq, Eq)]
enum Pos {
    FirstVariant,
    LaterVariant,
    /// the same type twice in one definition, only the second one with wrong information
    SecondUse,
    /// the same type twice, only the first one wrong (a correct use follows in a later variant)
    FirstOfTwo,
    /// the same type twice in one variant, the wrong one added first / added last
    SameVariantWrongFirst,
    SameVariantWrongLast,
    /// a later variant removes one datum and adds the subject (the variant does not grow)
    ReplacesOne,
    /// a later variant removes two data and adds the subject (the variant shrinks)
    Shrinking,
    /// added in the second variant, removed in the third
    RemovedNext,
    /// the first variant is empty, the subject comes in the second one
    AfterEmptyFirst,
    /// added between two data that may stay uninitialised
    AmongUninit,
}

const POSITIONS: [Pos; 11] = [
    Pos::FirstVariant,
    Pos::LaterVariant,
    Pos::SecondUse,
    Pos::FirstOfTwo,
    Pos::SameVariantWrongFirst,
    Pos::SameVariantWrongLast,
    Pos::ReplacesOne,
    Pos::Shrinking,
    Pos::RemovedNext,
    Pos::AfterEmptyFirst,
    Pos::AmongUninit,
];

struct Case {
    ty: usize,
    pert: Pert,
    pos: Pos,
}

fn override_for(t: &Ty, p: Pert) -> Option<DatumDefinitionOverride> {
    let mut o = DatumDefinitionOverride { type_name: None, size: None, align: None, allow_uninit: None };
    match p {
        Pert::None => {}
        Pert::SizeMinus1 => {
            if t.size == 0 {
                return None;
            }
            o.size = Some(t.size - 1)
        }
        Pert::SizePlus1 => o.size = Some(t.size + 1),
        Pert::SizeTimes2 => {
            if t.size == 0 {
                return None;
            }
            o.size = Some(t.size * 2)
        }
        Pert::AlignHalf => {
            if t.align == 1 {
                return None;
            }
            o.align = Some(t.align / 2)
        }
        Pert::AlignTimes2 => o.align = Some(t.align * 2),
        Pert::UninitFlag => o.allow_uninit = Some(true),
    }
    Some(o)
}

fn source(t: &Ty, c: &Case) -> Option<String> {
    let o = override_for(t, c.pert)?;
    let mut b: B = NativeRecordDefinitionBuilder::new(HostTypeResolver);
    let plain = || DatumDefinitionOverride { type_name: None, size: None, align: None, allow_uninit: None };
    match c.pos {
        Pos::FirstVariant => {
            (t.add)(&mut b, "subject", o);
            b.add_datum::<u16, _>("after").unwrap();
            b.close_record_variant();
            b.add_datum::<u8, _>("later").unwrap();
            b.close_record_variant();
        }
        Pos::LaterVariant => {
            b.add_datum::<u32, _>("base").unwrap();
            b.close_record_variant();
            (t.add)(&mut b, "subject", o);
            b.close_record_variant();
        }
        Pos::SecondUse => {
            (t.add)(&mut b, "first_use", plain());
            b.close_record_variant();
            (t.add)(&mut b, "subject", o);
            b.close_record_variant();
        }
        Pos::FirstOfTwo => {
            (t.add)(&mut b, "subject", o);
            b.close_record_variant();
            (t.add)(&mut b, "second_use", plain());
            b.close_record_variant();
        }
        Pos::SameVariantWrongFirst => {
            b.add_datum::<u8, _>("lead").unwrap();
            (t.add)(&mut b, "subject", o);
            (t.add)(&mut b, "other_use", plain());
            b.close_record_variant();
        }
        Pos::SameVariantWrongLast => {
            b.add_datum::<u8, _>("lead").unwrap();
            (t.add)(&mut b, "other_use", plain());
            (t.add)(&mut b, "subject", o);
            b.close_record_variant();
        }
        Pos::ReplacesOne => {
            b.add_datum::<i32, _>("keep").unwrap();
            let gone = b.add_datum::<i32, _>("gone").unwrap();
            b.close_record_variant();
            b.remove_datum(gone).unwrap();
            (t.add)(&mut b, "subject", o);
            b.close_record_variant();
        }
        Pos::Shrinking => {
            b.add_datum::<i32, _>("keep").unwrap();
            let gone = b.add_datum::<i16, _>("gone").unwrap();
            let gone_too = b.add_datum::<i64, _>("gone_too").unwrap();
            b.close_record_variant();
            b.remove_datum(gone).unwrap();
            b.remove_datum(gone_too).unwrap();
            (t.add)(&mut b, "subject", o);
            b.close_record_variant();
        }
        Pos::RemovedNext => {
            b.add_datum::<i32, _>("keep").unwrap();
            b.close_record_variant();
            (t.add)(&mut b, "subject", o);
            b.close_record_variant();
            let id = b.get_current_datum_definition_by_name("subject").expect("subject").id();
            b.remove_datum(id).unwrap();
            b.add_datum::<i8, _>("instead").unwrap();
            b.close_record_variant();
        }
        Pos::AfterEmptyFirst => {
            b.close_record_variant();
            (t.add)(&mut b, "subject", o);
            b.close_record_variant();
        }
        Pos::AmongUninit => {
            b.add_datum_allow_uninit::<i16, _>("maybe").unwrap();
            (t.add)(&mut b, "subject", o);
            b.add_datum_allow_uninit::<i64, _>("maybe_too").unwrap();
            b.close_record_variant();
        }
    }
    let def = b.build();
    let code = generate(&def, &GeneratorConfig::default());
    Some(format!("{}pub mod m {{\n{}\n}}\n", PRELUDE, code))
}


// ---------------------------------------------------------------------------------------------
// Second family: engine B's definitions. Every typed addition of every definition is, in turn,
// the subject whose recorded information is perturbed; everything else of the history (ghost
// data, removals, re-used names, strategies, may-be-uninit flags) stays as the history says.
// ---------------------------------------------------------------------------------------------

const FAMILY_PERTS: [Pert; 6] = [Pert::SizeMinus1, Pert::SizePlus1, Pert::SizeTimes2, Pert::AlignHalf, Pert::AlignTimes2, Pert::UninitFlag];

struct FamCase {
    def: usize,
    slot: usize,
    pert: Pert,
}

fn family_override(size: usize, align: usize, uninit: bool, p: Pert) -> Option<DatumDefinitionOverride> {
    let mut o = DatumDefinitionOverride { type_name: None, size: None, align: None, allow_uninit: Some(uninit) };
    match p {
        Pert::None => {}
        Pert::SizeMinus1 if size > 0 => o.size = Some(size - 1),
        Pert::SizePlus1 => o.size = Some(size + 1),
        Pert::SizeTimes2 if size > 0 => o.size = Some(size * 2),
        Pert::AlignHalf if align > 1 => o.align = Some(align / 2),
        Pert::AlignTimes2 => o.align = Some(align * 2),
        Pert::UninitFlag if !uninit => o.allow_uninit = Some(true),
        _ => return None,
    }
    Some(o)
}

/// (source, the subject's type is Copy, type name, size, align) or None when the perturbation does not apply
fn family_source(spec: &defgen::DefSpec, c: &FamCase) -> Option<(String, bool, String, usize, usize)> {
    let ts = defgen::types();
    let info = std::cell::RefCell::new(None);
    let applies = std::cell::Cell::new(true);
    let add = |b: &mut defgen::Builder, name: &str, t: usize, uninit: bool| {
        let ty = &ts[t];
        *info.borrow_mut() = Some((ty.copy, ty.short.to_owned(), ty.size, ty.align));
        match family_override(ty.size, ty.align, uninit, c.pert) {
            Some(o) => (ty.add_override)(b, name, o),
            None => {
                applies.set(false);
                (ty.add_override)(b, name, DatumDefinitionOverride { type_name: None, size: None, align: None, allow_uninit: Some(uninit) })
            }
        }
    };
    let built = defgen::build_with(spec, Some(&defgen::Subject { slot: c.slot, add: &add }));
    if !applies.get() {
        return None;
    }
    let (copy, short, size, align) = info.borrow().clone()?;
    let code = generate(&built.def, &GeneratorConfig::default());
    Some((format!("{}pub mod m {{\n{}\n}}\n", PRELUDE, code), copy, short, size, align))
}

pub fn main(args: &Args, ext: &Externs) -> i32 {
    let t0 = std::time::Instant::now();
    let ts = types();
    let mut cases = vec![];
    for ty in 0..ts.len() {
        for pert in PERTS {
            for pos in POSITIONS {
                cases.push(Case { ty, pert, pos });
            }
        }
    }
    let dir = crate::work_dir("C11");
    let case_json = |c: &Case| -> Value {
        json!({"space": "c11-probe", "type": ts[c.ty].name, "real_size_align": [ts[c.ty].size, ts[c.ty].align], "perturbation": format!("{:?}", c.pert), "position": format!("{:?}", c.pos)})
    };
    // replay: a single case
    let only: Option<(String, String, String)> = args.replay.as_ref().map(|p| {
        let d = vcommon::read_replay(p);
        (d["case"]["type"].as_str().unwrap_or("").to_owned(), d["case"]["perturbation"].as_str().unwrap_or("").to_owned(), d["case"]["position"].as_str().unwrap_or("").to_owned())
    });
    if let Some((t, p, q)) = &only {
        cases.retain(|c| ts[c.ty].name == t && format!("{:?}", c.pert) == *p && format!("{:?}", c.pos) == *q);
    }
    // the second family: every typed addition of engine B's definitions as the subject
    let mut fam_defs = if args.tier == vcommon::Tier::Thorough { defgen::family("quick") } else { defgen::zoo() };
    if args.tier != vcommon::Tier::Thorough {
        // wide records: twelve fields (two-digit positions), and thirteen in one variant
        fam_defs.extend(defgen::wide().into_iter().take(2));
    }
    {
        let t = |n: &str| defgen::type_index(n);
        let add: Vec<(usize, bool)> = ["Pod4", "Own8", "Pod2", "Own3", "Pod1", "Pod8", "OwnBox", "Pod4", "Pod2", "Own1", "Pod4", "Pod1", "Own12"].iter().enumerate().map(|(i, n)| (t(n), i % 5 == 0)).collect();
        fam_defs.push(defgen::DefSpec { name: "thirteen".to_owned(), steps: vec![defgen::DStep { remove: vec![], ghost: false, ghost_late: false, add, strat: 0 }], reuse_names: false });
    }
    let mut fam_cases = vec![];
    for (d, spec) in fam_defs.iter().enumerate() {
        for slot in 0..spec.slots() {
            for pert in FAMILY_PERTS {
                fam_cases.push(FamCase { def: d, slot, pert });
            }
        }
    }
    if let Some(p) = &args.replay {
        let d = vcommon::read_replay(p);
        if d["case"]["space"] == "c11-family" {
            cases.clear();
            let (name, slot, pert) = (d["case"]["definition"].as_str().unwrap_or("").to_owned(), d["case"]["slot"].as_u64().unwrap_or(u64::MAX) as usize, d["case"]["perturbation"].as_str().unwrap_or("").to_owned());
            fam_cases.retain(|c| fam_defs[c.def].name == name && c.slot == slot && format!("{:?}", c.pert) == pert);
        } else {
            fam_cases.clear();
        }
    }
    #[derive(Debug)]
    enum Outcome {
        Skipped,
        Accepted,
        RejectedAsExpected,
        RejectedOtherwise(String),
    }
    let results = crate::parallel(cases.len(), |i| {
        let c = &cases[i];
        let t = &ts[c.ty];
        let src = match source(t, c) {
            Some(s) => s,
            None => return Outcome::Skipped,
        };
        let path = dir.join(format!("case{}.rs", i));
        std::fs::write(&path, src).unwrap();
        let r = rustc(ext, &path, &["truc_runtime", "static_assertions", "vtypes"], None);
        let _ = std::fs::remove_file(&path);
        if r.ok {
            return Outcome::Accepted;
        }
        let expected = match c.pert {
            Pert::SizeMinus1 | Pert::SizePlus1 | Pert::SizeTimes2 => r.stderr.contains("const_assert_eq!(std::mem::size_of") || r.stderr.contains("const_assert_eq!(core::mem::size_of"),
            Pert::AlignHalf | Pert::AlignTimes2 => r.stderr.contains("align_of"),
            Pert::UninitFlag => r.stderr.contains("Copy"),
            Pert::None => false,
        };
        if expected {
            Outcome::RejectedAsExpected
        } else {
            Outcome::RejectedOtherwise(r.stderr.lines().filter(|l| l.starts_with("error")).take(3).collect::<Vec<_>>().join(" | "))
        }
    });
    let mut report = Report::new("probes", args, "exploration");
    report.start = t0;
    let (mut n, mut perturbed, mut rejected, mut accepted_ok, mut other) = (0u64, 0u64, 0u64, 0u64, 0u64);
    let mut samples = vec![];
    for (c, r) in cases.iter().zip(results.iter()) {
        let t = &ts[c.ty];
        let must_compile = c.pert == Pert::None || (c.pert == Pert::UninitFlag && t.copy);
        match r {
            Outcome::Skipped => continue,
            Outcome::Accepted => {
                n += 1;
                if must_compile {
                    accepted_ok += 1;
                } else {
                    perturbed += 1;
                    let what = match c.pert {
                        Pert::UninitFlag => "may-be-uninitialised-on-non-Copy",
                        Pert::AlignHalf | Pert::AlignTimes2 => "wrong-alignment",
                        _ => "wrong-size",
                    };
                    report.add(Violation::new(
                        format!("C11/{}-compiles/{:?}", what, c.pos),
                        format!("type {} (real size {}, align {}) recorded with {:?} in {:?}: the generated module compiles", t.name, t.size, t.align, c.pert, c.pos),
                        case_json(c),
                    ));
                }
            }
            Outcome::RejectedAsExpected => {
                n += 1;
                perturbed += 1;
                rejected += 1;
                if must_compile {
                    report.add(Violation::new("C11/unperturbed-rejected", format!("type {} with correct information does not compile ({:?}, {:?})", t.name, c.pert, c.pos), case_json(c)));
                }
            }
            Outcome::RejectedOtherwise(msg) => {
                n += 1;
                if must_compile {
                    report.add(Violation::new("C11/unperturbed-rejected", format!("type {} with correct information does not compile ({:?}, {:?}): {}", t.name, c.pert, c.pos, msg), case_json(c)));
                } else {
                    perturbed += 1;
                    other += 1;
                    eprintln!("note: {} {:?} {:?} rejected by another diagnostic: {}", t.name, c.pert, c.pos, msg);
                }
            }
        }
        if samples.len() < 4 && n % 41 == 1 {
            samples.push(case_json(c));
        }
    }
    // ---- the family sweep ----
    let fam_results = crate::parallel(fam_cases.len(), |i| {
        let c = &fam_cases[i];
        let spec = &fam_defs[c.def];
        let (src, copy, short, size, align) = match std::panic::catch_unwind(std::panic::AssertUnwindSafe(|| family_source(spec, c))) {
            Ok(Some(x)) => x,
            Ok(None) => return (Outcome::Skipped, false, String::new(), 0, 0),
            Err(e) => return (Outcome::RejectedOtherwise(format!("builder/generator panicked: {}", vcommon::panic_message(&e))), false, String::new(), 0, 0),
        };
        let path = dir.join(format!("fam{}.rs", i));
        std::fs::write(&path, src).unwrap();
        let r = rustc(ext, &path, &["truc_runtime", "static_assertions", "vtypes"], None);
        let _ = std::fs::remove_file(&path);
        if r.ok {
            return (Outcome::Accepted, copy, short, size, align);
        }
        let expected = match c.pert {
            Pert::SizeMinus1 | Pert::SizePlus1 | Pert::SizeTimes2 => r.stderr.contains("const_assert_eq!(std::mem::size_of") || r.stderr.contains("const_assert_eq!(core::mem::size_of"),
            Pert::AlignHalf | Pert::AlignTimes2 => r.stderr.contains("align_of"),
            Pert::UninitFlag => r.stderr.contains("Copy"),
            Pert::None => false,
        };
        let o = if expected { Outcome::RejectedAsExpected } else { Outcome::RejectedOtherwise(r.stderr.lines().filter(|l| l.starts_with("error")).take(3).collect::<Vec<_>>().join(" | ")) };
        (o, copy, short, size, align)
    });
    let (mut fam_n, mut fam_rejected) = (0u64, 0u64);
    for (c, (r, copy, short, size, align)) in fam_cases.iter().zip(fam_results.iter()) {
        let spec = &fam_defs[c.def];
        let case = json!({"space": "c11-family", "definition": spec.name, "history": spec.describe(), "slot": c.slot, "type": short, "real_size_align": [size, align], "perturbation": format!("{:?}", c.pert)});
        let must_compile = c.pert == Pert::UninitFlag && *copy;
        match r {
            Outcome::Skipped => continue,
            Outcome::Accepted => {
                fam_n += 1;
                if must_compile {
                    accepted_ok += 1;
                } else {
                    perturbed += 1;
                    let what = match c.pert {
                        Pert::UninitFlag => "may-be-uninitialised-on-non-Copy",
                        Pert::AlignHalf | Pert::AlignTimes2 => "wrong-alignment",
                        _ => "wrong-size",
                    };
                    report.add(Violation::new(
                        format!("C11/{}-compiles/family", what),
                        format!("{} ({}): addition #{} (vtypes::{}, real size {}, align {}) recorded with {:?}: the generated module compiles", spec.name, spec.describe(), c.slot, short, size, align, c.pert),
                        case,
                    ));
                }
            }
            Outcome::RejectedAsExpected => {
                fam_n += 1;
                perturbed += 1;
                fam_rejected += 1;
                if must_compile {
                    report.add(Violation::new("C11/unperturbed-rejected", format!("{}: the may-be-uninit flag on the Copy type {} does not compile", spec.name, short), case));
                }
            }
            Outcome::RejectedOtherwise(msg) => {
                fam_n += 1;
                if must_compile {
                    report.add(Violation::new("C11/unperturbed-rejected", format!("{}: the may-be-uninit flag on the Copy type {} does not compile: {}", spec.name, short, msg), case));
                } else {
                    perturbed += 1;
                    other += 1;
                    eprintln!("note: {} slot {} {:?} rejected by another diagnostic: {}", spec.name, c.slot, c.pert, msg);
                }
            }
        }
    }
    n += fam_n;
    rejected += fam_rejected;
    // shortest first: keep one violation per key
    let mut seen = std::collections::BTreeSet::new();
    report.violations.retain(|v| seen.insert(v.key.clone()));
    if args.replay.is_some() {
        for v in &report.violations {
            println!("REPLAY-VIOLATION property=C11 key={} :: {}", v.key, v.what);
        }
        return if report.violations.is_empty() { println!("REPLAY-OK property=C11"); 0 } else { 1 };
    }
    if other > 0 && report.violations.is_empty() {
        // rejected, but not by the mechanism the property names: we cannot tell, never a verdict
        vcommon::machinery_error(&format!("{} perturbed modules were rejected by an unrelated diagnostic", other));
    }
    report
        .cov("evaluations", n)
        .cov("distinct_nontrivial", perturbed)
        .cov("rule", format!("every type of a {}-type menu x {{first variant, later variant, second use wrong, first of two uses wrong, same variant wrong first / last, replacing a removed datum, in a shrinking variant, removed in the next variant, after an empty first variant, between may-be-uninitialised data}} x {{unperturbed, size-1, size+1, 2*size, align/2, 2*align, may-be-uninit flag}} recorded through add_datum_override, generated by the real generate() and type-checked by rustc --emit=metadata; non-trivial = a perturbed (or flag-on-non-Copy) case, distinct by construction", ts.len()))
        .cov("samples", samples)
        .cov("exhaustive", true)
        .cov("perturbed_rejected_by_the_emitted_assertion", rejected)
        .cov("correct_cases_accepted", accepted_ok)
        .cov("second_family", json!({"rule": "every typed addition of every definition of engine B's family (quick: the zoo; thorough: engine B's quick family) is in turn recorded with {size-1, size+1, 2*size, align/2, 2*align, may-be-uninit flag} while the rest of the history (removals, cancelled additions, re-used names, strategies, flags) stays; same oracle", "definitions": fam_defs.len(), "evaluations": fam_n, "rejected_by_the_emitted_assertion": fam_rejected}))
        .cov("types", ts.iter().map(|t| json!([t.name, t.size, t.align, t.copy])).collect::<Vec<_>>());
    report.assume("the compiler (rustc, --emit=metadata: type checking and constant evaluation) is the oracle");
    report.finish()
}
