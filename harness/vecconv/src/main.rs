//! Engine C — in-place vector conversion under every converter behaviour (C08, C09, C10).
//!
//! Exhaustive enumeration, on the real `truc_runtime::convert` functions, of: every vector length
//! up to N, every converted/abandoned pattern, every position and kind of converter failure, every
//! way the converter uses its "previous output" argument, spare capacity or not, both entry points,
//! over a set of element type pairs; and (C10) every ordered pair of a layout matrix.
//! Cases run in child processes (a double free aborts; the parent attributes the crash).

use std::{
    alloc::{GlobalAlloc, Layout, System},
    cell::RefCell,
    panic::{catch_unwind, AssertUnwindSafe},
    path::PathBuf,
    sync::atomic::{AtomicBool, AtomicUsize, Ordering},
};

use truc_runtime::convert::{
    convert_vec_in_place, try_convert_vec_in_place, VecElementConversionResult,
};
use vcommon::{json, CaseOutcome, Report, Tier, Value, Violation};
use vtypes::{ledger, Field, HarnessPanic, *};

// ---------------------------------------------------------------------------------------
// allocator log
// ---------------------------------------------------------------------------------------

#[derive(Clone, Copy)]
struct AllocEv {
    alloc: bool,
    ptr: usize,
    size: usize,
    align: usize,
}

const MAX_EV: usize = 1 << 14;
static ARMED: AtomicBool = AtomicBool::new(false);
static N_EV: AtomicUsize = AtomicUsize::new(0);
static mut EVENTS: [AllocEv; MAX_EV] = [AllocEv {
    alloc: false,
    ptr: 0,
    size: 0,
    align: 0,
}; MAX_EV];

struct LogAlloc;

fn log_ev(ev: AllocEv) {
    if ARMED.load(Ordering::Relaxed) {
        let i = N_EV.fetch_add(1, Ordering::Relaxed);
        if i < MAX_EV {
            unsafe {
                (*std::ptr::addr_of_mut!(EVENTS))[i] = ev;
            }
        }
    }
}

unsafe impl GlobalAlloc for LogAlloc {
    unsafe fn alloc(&self, layout: Layout) -> *mut u8 {
        let p = System.alloc(layout);
        log_ev(AllocEv {
            alloc: true,
            ptr: p as usize,
            size: layout.size(),
            align: layout.align(),
        });
        p
    }
    unsafe fn dealloc(&self, ptr: *mut u8, layout: Layout) {
        log_ev(AllocEv {
            alloc: false,
            ptr: ptr as usize,
            size: layout.size(),
            align: layout.align(),
        });
        System.dealloc(ptr, layout)
    }
    // realloc: default implementation (alloc + copy + dealloc), so that it is logged
}

#[global_allocator]
static GLOBAL: LogAlloc = LogAlloc;

fn arm() {
    N_EV.store(0, Ordering::SeqCst);
    ARMED.store(true, Ordering::SeqCst);
}

fn disarm() -> Vec<AllocEv> {
    ARMED.store(false, Ordering::SeqCst);
    let n = N_EV.load(Ordering::SeqCst).min(MAX_EV);
    (0..n)
        .map(|i| unsafe { (*std::ptr::addr_of!(EVENTS))[i] })
        .collect()
}

/// How often the allocation that was live at `ptr` when the log was armed has been released,
/// following the pairing rule: events on that address after a later allocation returned it belong
/// to that later allocation.
fn releases_of(events: &[AllocEv], ptr: usize) -> (usize, Option<AllocEv>) {
    let mut n = 0;
    let mut first = None;
    for ev in events {
        if ev.ptr != ptr {
            continue;
        }
        if ev.alloc {
            if n > 0 {
                break; // address re-used by a new allocation
            }
            // an allocation returning an address that is still live cannot happen
        } else {
            n += 1;
            if first.is_none() {
                first = Some(*ev);
            }
        }
    }
    (n, first)
}

// ---------------------------------------------------------------------------------------
// cases
// ---------------------------------------------------------------------------------------

#[derive(Clone, Copy, PartialEq, Eq, Debug)]
enum FailKind {
    Err,
    PanicBeforeOutput,
    PanicAfterOutputBuilt,
    PanicAfterInputDropped,
}

impl FailKind {
    const ALL: [FailKind; 4] = [
        FailKind::Err,
        FailKind::PanicBeforeOutput,
        FailKind::PanicAfterOutputBuilt,
        FailKind::PanicAfterInputDropped,
    ];
    fn name(self) -> &'static str {
        match self {
            FailKind::Err => "err",
            FailKind::PanicBeforeOutput => "panic-before-output",
            FailKind::PanicAfterOutputBuilt => "panic-after-output-built",
            FailKind::PanicAfterInputDropped => "panic-after-input-dropped",
        }
    }
    fn from_name(s: &str) -> Self {
        *Self::ALL.iter().find(|k| k.name() == s).expect("fail kind")
    }
}

#[derive(Clone, Copy, PartialEq, Eq, Debug)]
enum PrevMode {
    Ignore,
    Read,
    Modify,
}

impl PrevMode {
    const ALL: [PrevMode; 3] = [PrevMode::Ignore, PrevMode::Read, PrevMode::Modify];
    fn name(self) -> &'static str {
        match self {
            PrevMode::Ignore => "ignore",
            PrevMode::Read => "read",
            PrevMode::Modify => "modify",
        }
    }
    fn from_name(s: &str) -> Self {
        *Self::ALL.iter().find(|k| k.name() == s).expect("prev mode")
    }
}

#[derive(Clone, Copy, PartialEq, Eq, Debug)]
enum Entry {
    Try,
    Plain,
}

#[derive(Clone, Debug)]
struct Case {
    pair: usize,
    n: usize,
    /// bit i set = element i is converted, clear = abandoned (for the elements before the failure)
    pattern: u32,
    fail: Option<(usize, FailKind)>,
    mode: PrevMode,
    extra_cap: usize,
    entry: Entry,
}

impl Case {
    fn prefix_len(&self) -> usize {
        self.fail.map(|f| f.0).unwrap_or(self.n)
    }
    fn pattern_str(&self) -> String {
        (0..self.prefix_len())
            .map(|i| if self.pattern >> i & 1 == 1 { 'C' } else { 'A' })
            .collect()
    }
    fn to_json(&self, pairs: &[Pair]) -> Value {
        json!({
            "space": "convert",
            "pair": pairs[self.pair].name,
            "n": self.n,
            "pattern": self.pattern_str(),
            "fail": self.fail.map(|(k, kind)| json!({"pos": k, "kind": kind.name()})),
            "prev_mode": self.mode.name(),
            "extra_capacity": self.extra_cap,
            "entry": match self.entry { Entry::Try => "try_convert_vec_in_place", Entry::Plain => "convert_vec_in_place" },
            "profile": profile(),
        })
    }
    fn from_json(v: &Value, pairs: &[Pair]) -> Case {
        let name = v["pair"].as_str().expect("pair");
        let pair = pairs
            .iter()
            .position(|p| p.name == name)
            .unwrap_or_else(|| vcommon::machinery_error("unknown pair in replay"));
        let pattern = v["pattern"]
            .as_str()
            .unwrap_or("")
            .chars()
            .enumerate()
            .fold(0u32, |acc, (i, c)| if c == 'C' { acc | 1 << i } else { acc });
        Case {
            pair,
            n: v["n"].as_u64().unwrap_or(0) as usize,
            pattern,
            fail: if v["fail"].is_null() {
                None
            } else {
                Some((
                    v["fail"]["pos"].as_u64().unwrap() as usize,
                    FailKind::from_name(v["fail"]["kind"].as_str().unwrap()),
                ))
            },
            mode: PrevMode::from_name(v["prev_mode"].as_str().unwrap_or("ignore")),
            extra_cap: v["extra_capacity"].as_u64().unwrap_or(0) as usize,
            entry: if v["entry"].as_str() == Some("convert_vec_in_place") {
                Entry::Plain
            } else {
                Entry::Try
            },
        }
    }
}

fn profile() -> &'static str {
    if cfg!(debug_assertions) {
        "debug"
    } else {
        "release"
    }
}

struct Pair {
    name: &'static str,
    run: fn(&Case, &str) -> CaseOutcome,
    same_layout: bool,
}

macro_rules! pair {
    ($t:ty, $u:ty) => {
        Pair {
            name: concat!(stringify!($t), "->", stringify!($u)),
            run: run_case::<$t, $u>,
            same_layout: std::mem::size_of::<$t>() == std::mem::size_of::<$u>()
                && std::mem::align_of::<$t>() == std::mem::align_of::<$u>(),
        }
    };
}

/// Element type pairs of equal layout (C08 / C09).
fn conv_pairs() -> Vec<Pair> {
    vec![
        pair!(Pod4, Pod4b),
        pair!(Own8, Own8b),
        pair!(OwnBox, OwnBox2),
        pair!(OwnZ, OwnZ2),
        pair!(Own3, Own3b),
        pair!(Big72, Big72b),
        pair!(Own16a, Own16b),
        pair!(Own8, Own8),
        pair!(Own24, Own24b),
        pair!(OwnZ4, OwnZ4b),
        pair!(Own8, Own4),
        pair!(Own12, Own12b),
        // only one side has drop glue
        pair!(Pod8, OwnBox),
        pair!(OwnBox, Pod8),
        pair!(PodZ, OwnZ),
    ]
}

macro_rules! matrix {
    ($($t:ty),*) => { matrix!(@rows [$($t),*] [$($t),*]) };
    (@rows [$($t:ty),*] $us:tt) => {{
        let mut v: Vec<Pair> = Vec::new();
        $( matrix!(@row v $t $us); )*
        v
    }};
    (@row $v:ident $t:ty [$($u:ty),*]) => { $( $v.push(pair!($t, $u)); )* };
}

/// Layout matrix for C10: (size, align) = (0,1) (0,4) (2,1) (3,1) (4,1) (4,2) (4,4) (8,4) (8,8)
/// (12,4) (16,16) (24,8) (32,32) (32,1) (33,1) (256,256) (257,1), with two distinct types for several layouts.
fn matrix_pairs() -> Vec<Pair> {
    matrix!(
        OwnZ, OwnZ2, OwnZ4, Own2a1, Own2a1b, Own3, Own4a1, Own4a2, Own2, Pod4, Own8, Own4, OwnBox,
        Own12, Own16a, Own16b, Own24, Own32a, Own32u, Own33, Own256a, Own257
    )
}

fn enumerate_conv(pairs: &[Pair], max_n: usize, want_fail: Option<bool>) -> Vec<Case> {
    let mut cases = Vec::new();
    for (pi, _) in pairs.iter().enumerate() {
        for n in 0..=max_n {
            let mut fails: Vec<Option<(usize, FailKind)>> = vec![];
            if want_fail != Some(true) {
                fails.push(None);
            }
            if want_fail != Some(false) {
                for k in 0..n {
                    for kind in FailKind::ALL {
                        fails.push(Some((k, kind)));
                    }
                }
            }
            for fail in fails {
                let plen = fail.map(|f| f.0).unwrap_or(n);
                for pattern in 0..(1u32 << plen) {
                    for mode in PrevMode::ALL {
                        for extra_cap in [0usize, 2] {
                            for entry in [Entry::Try, Entry::Plain] {
                                if entry == Entry::Plain
                                    && matches!(fail, Some((_, FailKind::Err)))
                                {
                                    continue;
                                }
                                cases.push(Case {
                                    pair: pi,
                                    n,
                                    pattern,
                                    fail,
                                    mode,
                                    extra_cap,
                                    entry,
                                });
                            }
                        }
                    }
                }
            }
        }
    }
    cases
}

/// Long vectors (beyond the exhaustive lengths): a few lengths around multiples of eight, a
/// handful of converted/abandoned patterns (all converted, one kept in eight, only the last / the
/// first kept, alternating, runs after gaps), every failure position and kind; three type pairs.
fn enumerate_long(pairs: &[Pair], want_fail: bool) -> Vec<Case> {
    let mut cases = Vec::new();
    for pi in 0..pairs.len().min(3) {
        for n in [9usize, 12, 17] {
            let full = (1u32 << n) - 1;
            let patterns = [full, 0x0101_0101 & full, 1u32 << (n - 1), 1, 0x5555_5555 & full, 0xFFFF_FF9C & full, 0];
            let fails: Vec<Option<(usize, FailKind)>> = if want_fail { (0..n).flat_map(|k| FailKind::ALL.into_iter().map(move |kind| Some((k, kind)))).collect() } else { vec![None] };
            for fail in fails {
                let plen = fail.map(|f| f.0).unwrap_or(n);
                let mut seen = std::collections::BTreeSet::new();
                for pattern in patterns.iter().map(|p| p & ((1u32 << plen) - 1)) {
                    if !seen.insert(pattern) {
                        continue;
                    }
                    for entry in [Entry::Try, Entry::Plain] {
                        if entry == Entry::Plain && matches!(fail, Some((_, FailKind::Err))) {
                            continue;
                        }
                        cases.push(Case { pair: pi, n, pattern, fail, mode: PrevMode::Read, extra_cap: 0, entry });
                    }
                }
            }
        }
    }
    cases
}

fn enumerate_matrix(pairs: &[Pair], max_n: usize) -> Vec<Case> {
    let mut cases = Vec::new();
    for (pi, _) in pairs.iter().enumerate() {
        for n in 0..=max_n {
            for extra_cap in [0usize, 2] {
                for entry in [Entry::Try, Entry::Plain] {
                    for pattern in [(1u32 << n) - 1, 0b0101_0101 & ((1u32 << n) - 1)] {
                        if n == 0 && pattern != 0 {
                            continue;
                        }
                        cases.push(Case {
                            pair: pi,
                            n,
                            pattern,
                            fail: None,
                            mode: PrevMode::Read,
                            extra_cap,
                            entry,
                        });
                    }
                }
            }
        }
    }
    cases.dedup_by(|a, b| {
        a.pair == b.pair
            && a.n == b.n
            && a.pattern == b.pattern
            && a.extra_cap == b.extra_cap
            && a.entry == b.entry
    });
    cases
}

// ---------------------------------------------------------------------------------------
// one execution on the real code
// ---------------------------------------------------------------------------------------

#[derive(Clone, Debug, Default)]
struct CallRec {
    in_tok: u64,
    in_id: u64,
    /// Some(Some(id, tok)) = previous output present, Some(None) = absent, None = not looked at
    prev: Option<Option<(u64, u64)>>,
}

thread_local! {
    static CALLS: RefCell<Vec<CallRec>> = const { RefCell::new(Vec::new()) };
    static OUT_IDS: RefCell<Vec<u64>> = const { RefCell::new(Vec::new()) };
    static PLAN: RefCell<Option<Case>> = const { RefCell::new(None) };
    static ERR_ID: RefCell<Option<u64>> = const { RefCell::new(None) };
}

const PANIC_BASE: u64 = 0xFA11_0000;

fn out_tok(in_tok: u64) -> u64 {
    in_tok + 100
}

fn converter<T: Field, U: Field>(
    t: T,
    prev: Option<&mut U>,
) -> Result<VecElementConversionResult<U>, OwnBox> {
    let plan = PLAN.with(|p| p.borrow().clone()).expect("plan");
    let idx = CALLS.with(|c| c.borrow().len());
    let mut rec = CallRec {
        in_tok: t.tok(),
        in_id: t.id(),
        prev: None,
    };
    match plan.mode {
        PrevMode::Ignore => {}
        PrevMode::Read => rec.prev = Some(prev.as_ref().map(|p| (p.id(), p.tok()))),
        PrevMode::Modify => {
            rec.prev = Some(prev.as_ref().map(|p| (p.id(), p.tok())));
            if let Some(p) = prev {
                let cur = p.tok();
                p.set_tok(cur.wrapping_add(1000));
            }
        }
    }
    CALLS.with(|c| c.borrow_mut().push(rec));
    if let Some((k, kind)) = plan.fail {
        if idx == k {
            match kind {
                FailKind::Err => {
                    let e = OwnBox::make(9000 + idx as u64);
                    ERR_ID.with(|x| *x.borrow_mut() = Some(e.id()));
                    return Err(e);
                }
                FailKind::PanicBeforeOutput => {
                    std::panic::panic_any(HarnessPanic {
                        code: PANIC_BASE + idx as u64,
                        what: "converter",
                    });
                }
                FailKind::PanicAfterOutputBuilt => {
                    let _u = U::make(out_tok(t.tok()));
                    std::panic::panic_any(HarnessPanic {
                        code: PANIC_BASE + idx as u64,
                        what: "converter",
                    });
                }
                FailKind::PanicAfterInputDropped => {
                    drop(t);
                    std::panic::panic_any(HarnessPanic {
                        code: PANIC_BASE + idx as u64,
                        what: "converter",
                    });
                }
            }
        }
    }
    // calls beyond the plan (only possible if the converter is called after a failure) abandon
    if idx < plan.prefix_len() && plan.pattern >> idx & 1 == 1 {
        let u = U::make(out_tok(t.tok()));
        OUT_IDS.with(|o| o.borrow_mut().push(u.id()));
        Ok(VecElementConversionResult::Converted(u))
    } else {
        Ok(VecElementConversionResult::Abandonned)
    }
}

fn run_case<T: Field, U: Field>(case: &Case, prop: &str) -> CaseOutcome {
    let mut out = CaseOutcome::default();
    let viol = RefCell::new(Vec::new());
    run_case_inner::<T, U>(case, prop, &mut out, &viol);
    let same_layout = std::mem::size_of::<T>() == std::mem::size_of::<U>()
        && std::mem::align_of::<T>() == std::mem::align_of::<U>();
    if prop == "C10" && !same_layout {
        // History dependence is part of the case: the same request once more after conversions
        // that are legal (T -> T, U -> U, u32 -> i32), in the same process. A refusal that only
        // works until something was converted successfully is then reproduced by the case alone
        // (a fresh process), not only by whatever happened to run before it in a sweep.
        let before = viol.borrow().len();
        legal_conversions::<T>();
        legal_conversions::<U>();
        let v: Vec<u32> = vec![1, 2, 3];
        drop(convert_vec_in_place::<u32, i32, _>(v, |x, _| VecElementConversionResult::Converted(x as i32)));
        run_case_inner::<T, U>(case, prop, &mut out, &viol);
        for v in viol.borrow_mut()[before..].iter_mut() {
            v.key.push_str("/after-legal-conversions");
            v.what = format!("second attempt, after legal conversions (T -> T, U -> U, u32 -> i32) in the same process: {}", v.what);
        }
        out.stat("second_attempts_after_legal_conversions", 1);
    }
    out.violations = viol.into_inner();
    out
}

/// Conversions that must succeed: a vector of two `X` converted to `X`, and an empty one.
fn legal_conversions<X: Field>() {
    let v: Vec<X> = vec![X::make(1), X::make(2)];
    drop(convert_vec_in_place::<X, X, _>(v, |x, _| VecElementConversionResult::Converted(x)));
    let e: Vec<X> = Vec::new();
    drop(convert_vec_in_place::<X, X, _>(e, |x, _| VecElementConversionResult::Converted(x)));
}

fn run_case_inner<T: Field, U: Field>(
    case: &Case,
    prop: &str,
    out: &mut CaseOutcome,
    viol: &RefCell<Vec<Violation>>,
) {
    let pairs_name = format!("{}->{}", T::NAME, U::NAME);
    let same_layout = std::mem::size_of::<T>() == std::mem::size_of::<U>()
        && std::mem::align_of::<T>() == std::mem::align_of::<U>();
    let case_json = json!({
        "space": "convert",
        "pair": pairs_name,
        "n": case.n,
        "pattern": case.pattern_str(),
        "fail": case.fail.map(|(k, kind)| json!({"pos": k, "kind": kind.name()})),
        "prev_mode": case.mode.name(),
        "extra_capacity": case.extra_cap,
        "entry": match case.entry { Entry::Try => "try_convert_vec_in_place", Entry::Plain => "convert_vec_in_place" },
        "profile": profile(),
        "layouts": [[std::mem::size_of::<T>(), std::mem::align_of::<T>()], [std::mem::size_of::<U>(), std::mem::align_of::<U>()]],
    });
    let bad = |key: String, what: String| {
        viol.borrow_mut()
            .push(Violation::new(key, what, case_json.clone()));
    };

    ledger::reset();
    CALLS.with(|c| c.borrow_mut().clear());
    OUT_IDS.with(|c| c.borrow_mut().clear());
    ERR_ID.with(|c| *c.borrow_mut() = None);
    PLAN.with(|p| *p.borrow_mut() = Some(case.clone()));

    let n = case.n;
    let mut input: Vec<T> = if n + case.extra_cap == 0 {
        Vec::new()
    } else {
        Vec::with_capacity(n + case.extra_cap)
    };
    for i in 0..n {
        input.push(T::make(10 + i as u64));
    }
    let in_ids: Vec<u64> = input.iter().map(|t| t.id()).collect();
    let ptr = input.as_ptr() as usize;
    let cap = input.capacity();
    let buf_bytes = if std::mem::size_of::<T>() == 0 {
        0
    } else {
        cap * std::mem::size_of::<T>()
    };

    // reference model
    let mut model: Vec<u64> = Vec::new();
    let mut model_prev: Vec<Option<usize>> = Vec::new(); // index into model of the previous output
    for i in 0..case.prefix_len() {
        model_prev.push(model.len().checked_sub(1));
        if case.mode == PrevMode::Modify {
            if let Some(last) = model.last_mut() {
                *last = U::norm(U::norm(*last).wrapping_add(1000));
            }
        }
        if case.pattern >> i & 1 == 1 {
            model.push(U::norm(out_tok(T::norm(10 + i as u64))));
        }
    }
    if case.fail.is_some() {
        model_prev.push(model.len().checked_sub(1));
        if case.mode == PrevMode::Modify {
            if let Some(last) = model.last_mut() {
                *last = U::norm(U::norm(*last).wrapping_add(1000));
            }
        }
    }

    arm();
    let entry = case.entry;
    let res = catch_unwind(AssertUnwindSafe(move || match entry {
        Entry::Try => try_convert_vec_in_place::<T, U, _, OwnBox>(input, converter::<T, U>),
        Entry::Plain => Ok(convert_vec_in_place::<T, U, _>(input, |t, p| {
            match converter::<T, U>(t, p) {
                Ok(r) => r,
                Err(_) => unreachable!("plain entry point has no error cases"),
            }
        })),
    }));
    let events = disarm();
    let calls = CALLS.with(|c| c.borrow().clone());
    let out_ids = OUT_IDS.with(|c| c.borrow().clone());
    let (releases, first_release) = if buf_bytes > 0 {
        releases_of(&events, ptr)
    } else {
        (0, None)
    };
    out.stat("converter_calls", calls.len() as u64);

    if !same_layout {
        // ---- C10: must be refused before anything is touched
        match res {
            Err(_payload) => {
                out.tag("refused");
                if !calls.is_empty() {
                    bad(format!("{}/mismatch/converter-called", prop), format!("{}: converter called {} times although the element layouts differ", pairs_name, calls.len()));
                }
                let s = ledger::summary();
                if !s.balanced() {
                    bad(format!("{}/mismatch/ledger", prop), format!("{}: after the refusal: {}", pairs_name, s.describe()));
                    out.poisoned = !s.errors.is_empty();
                }
                if buf_bytes > 0 && releases != 1 {
                    bad(format!("{}/mismatch/buffer-released-{}-times", prop, releases), format!("{}: input buffer of {} bytes released {} times after the refusal", pairs_name, buf_bytes, releases));
                }
            }
            Ok(r) => {
                out.tag("mismatch-accepted");
                bad(
                    format!("{}/mismatch/not-refused", prop),
                    format!(
                        "{}: conversion between element types of different layout ({}, {}) vs ({}, {}) was not refused (n={}, capacity={})",
                        pairs_name,
                        std::mem::size_of::<T>(), std::mem::align_of::<T>(),
                        std::mem::size_of::<U>(), std::mem::align_of::<U>(),
                        n, cap
                    ),
                );
                // the result vector has a wrong layout: do not touch it
                std::mem::forget(r);
                out.poisoned = true;
            }
        }
        return;
    }

    // ---- common: call log
    let expected_calls = case.fail.map(|f| f.0 + 1).unwrap_or(n);
    if calls.len() != expected_calls {
        bad(
            format!("{}/calls/count", prop),
            format!("converter called {} times, expected {} (n={}, failure={:?})", calls.len(), expected_calls, n, case.fail),
        );
    }
    for (i, c) in calls.iter().enumerate().take(expected_calls) {
        if c.in_tok != T::norm(10 + i as u64) || (!T::ZST && T::DROPPABLE && c.in_id != in_ids[i]) {
            bad(
                format!("{}/calls/order", prop),
                format!("call #{} received element value {} (instance {}), expected input #{} value {} (instance {})", i, c.in_tok, c.in_id, i, T::norm(10 + i as u64), in_ids[i]),
            );
            break;
        }
    }
    // ---- previous-output argument
    if case.mode != PrevMode::Ignore {
        // replay the model to know what each call must have seen
        let mut m: Vec<u64> = Vec::new();
        let mut produced = 0usize;
        for (i, c) in calls.iter().enumerate().take(expected_calls) {
            let want: Option<(u64, u64)> = if produced == 0 {
                None
            } else {
                Some((out_ids.get(produced - 1).copied().unwrap_or(0), *m.last().unwrap()))
            };
            let got = c.prev.unwrap_or(None);
            let same = match (want, got) {
                (None, None) => true,
                (Some((wid, wtok)), Some((gid, gtok))) => {
                    wtok == gtok && (U::ZST || !U::DROPPABLE || wid == gid)
                }
                _ => false,
            };
            if !same {
                bad(
                    format!("{}/prev-output", prop),
                    format!("call #{}: previous-output argument was {:?} (instance, value), expected {:?}", i, got, want),
                );
                break;
            }
            if case.mode == PrevMode::Modify {
                if let Some(last) = m.last_mut() {
                    *last = U::norm(U::norm(*last).wrapping_add(1000));
                }
            }
            if i < case.prefix_len() && case.pattern >> i & 1 == 1 {
                m.push(U::norm(out_tok(T::norm(10 + i as u64))));
                produced += 1;
            }
        }
    }

    match (case.fail, res) {
        (None, Ok(Ok(result))) => {
            out.tag(format!("ok/len{}", result.len()));
            let got: Vec<u64> = result.iter().map(|u| u.tok()).collect();
            if got != model {
                bad(format!("{}/result/values", prop), format!("result holds {:?}, the converter produced {:?}", got, model));
            }
            if !U::ZST && U::DROPPABLE {
                let got_ids: Vec<u64> = result.iter().map(|u| u.id()).collect();
                if got_ids != out_ids {
                    bad(format!("{}/result/instances", prop), format!("result holds instances {:?}, the converter produced {:?}", got_ids, out_ids));
                }
            }
            if result.as_ptr() as usize != ptr || result.capacity() != cap {
                bad(
                    format!("{}/result/allocation", prop),
                    format!("result buffer {:#x} capacity {} differs from the input's {:#x} capacity {}", result.as_ptr() as usize, result.capacity(), ptr, cap),
                );
            }
            if releases != 0 {
                bad(format!("{}/result/input-buffer-released", prop), format!("the input buffer was released {} times during a successful conversion", releases));
            }
            // inputs must all be gone, outputs alive
            let live_now = ledger::live_count();
            let expect_live = if U::DROPPABLE { result.len() } else { 0 };
            if live_now != expect_live || !ledger::errors().is_empty() {
                bad(format!("{}/ledger/after-conversion", prop), format!("{} instrumented values alive after the conversion, expected the {} outputs only; {}", live_now, expect_live, ledger::summary().describe()));
            }
            arm();
            drop(result);
            let ev2 = disarm();
            if buf_bytes > 0 {
                let (r2, _) = releases_of(&ev2, ptr);
                if r2 != 1 {
                    bad(format!("{}/result/drop-releases-{}", prop, r2), format!("dropping the result released the buffer {} times", r2));
                }
            }
            let s = ledger::summary();
            if !s.balanced() {
                bad(format!("{}/ledger/after-drop", prop), s.describe());
            }
        }
        (None, Ok(Err(e))) => {
            bad(format!("{}/result/unexpected-err", prop), format!("conversion without failing converter returned Err (value {})", e.tok()));
        }
        (None, Err(p)) => {
            bad(format!("{}/result/unexpected-panic", prop), format!("conversion without failing converter panicked: {}", vcommon::panic_message(&*p)));
        }
        (Some((k, kind)), res) => {
            // ---- C09
            match (kind, res) {
                (FailKind::Err, Ok(Err(e))) => {
                    out.tag(format!("err@{}", k));
                    let want = ERR_ID.with(|x| *x.borrow());
                    if Some(e.id()) != want || e.tok() != 9000 + k as u64 {
                        bad(format!("{}/error-value", prop), format!("caller received error instance {} value {}, the converter returned instance {:?} value {}", e.id(), e.tok(), want, 9000 + k as u64));
                    }
                    drop(e);
                }
                (FailKind::Err, Ok(Ok(v))) => {
                    bad(format!("{}/error-swallowed", prop), format!("converter returned Err at element {} but the call returned Ok (len {})", k, v.len()));
                    drop(v);
                }
                (FailKind::Err, Err(p)) => {
                    bad(format!("{}/error-became-panic", prop), format!("converter returned Err at element {} but the call panicked: {}", k, vcommon::panic_message(&*p)));
                }
                (_, Err(p)) => {
                    out.tag(format!("panic@{}/{}", k, kind.name()));
                    match p.downcast_ref::<HarnessPanic>() {
                        Some(h) if h.code == PANIC_BASE + k as u64 => {}
                        Some(h) => bad(format!("{}/panic-payload-other", prop), format!("caller received harness payload {:#x}, expected {:#x}", h.code, PANIC_BASE + k as u64)),
                        None => bad(
                            format!("{}/panic-payload-replaced", prop),
                            format!("converter panicked with a HarnessPanic payload at element {}; the caller received a different payload: {:?}", k, vcommon::panic_message(&*p)),
                        ),
                    }
                    drop(p);
                }
                (_, Ok(_)) => {
                    bad(format!("{}/panic-swallowed", prop), format!("converter panicked at element {} but the call returned", k));
                }
            }
            let s = ledger::summary();
            if !s.balanced() {
                let kindname = if s.errors.is_empty() { "leak" } else { "double-or-unknown-drop" };
                bad(format!("{}/ledger/{}", prop, kindname), format!("after the failure at element {} ({}): {}", k, kind.name(), s.describe()));
                out.poisoned = !s.errors.is_empty();
            }
            if buf_bytes > 0 && releases != 1 {
                let group = if kind == FailKind::Err { "err" } else { "panic" };
                bad(
                    format!("{}/buffer-released-{}-times/{}", prop, releases, group),
                    format!("after the failure at element {} ({}): the vector's buffer ({} bytes at {:#x}) was released {} times", k, kind.name(), buf_bytes, ptr, releases),
                );
            } else if let Some(ev) = first_release {
                if ev.size != buf_bytes || ev.align != std::mem::align_of::<T>() {
                    bad(format!("{}/buffer-released-with-wrong-layout", prop), format!("buffer of {} bytes align {} released as {} bytes align {}", buf_bytes, std::mem::align_of::<T>(), ev.size, ev.align));
                }
            }
        }
    }
}

// ---------------------------------------------------------------------------------------
// driver
// ---------------------------------------------------------------------------------------

fn space_for(prop: &str, tier: Tier) -> (Vec<Pair>, Vec<Case>, usize) {
    match prop {
        "C08" => {
            let n = if tier == Tier::Quick { 6 } else { 10 };
            let pairs = conv_pairs();
            let mut cases = enumerate_conv(&pairs, n, Some(false));
            cases.extend(enumerate_long(&pairs, false));
            (pairs, cases, n)
        }
        "C09" => {
            let n = if tier == Tier::Quick { 6 } else { 10 };
            let pairs = conv_pairs();
            let mut cases = enumerate_conv(&pairs, n, Some(true));
            cases.extend(enumerate_long(&pairs, true));
            (pairs, cases, n)
        }
        "C10" => {
            let n = if tier == Tier::Quick { 3 } else { 6 };
            let pairs = matrix_pairs();
            let cases = enumerate_matrix(&pairs, n);
            (pairs, cases, n)
        }
        _ => vcommon::machinery_error("vecconv serves C08, C09, C10"),
    }
}

fn main() {
    let args = vcommon::parse_args();
    vcommon::quiet_panics();
    let prop = args.property.clone();
    let (pairs, cases, max_n) = space_for(&prop, args.tier);

    if let Some(spec) = &args.child {
        vcommon::brief_panics();
        let prop2 = prop.clone();
        vcommon::child_loop(spec, cases.len(), |idx| {
            let c = &cases[idx];
            let mut o = (pairs[c.pair].run)(c, &prop2);
            o.stat("cases", 1);
            if idx % 997 == 0 {
                o.sample = Some(c.to_json(&pairs));
            }
            o
        });
    }

    if let Some(path) = &args.replay {
        let doc = vcommon::read_replay(path);
        let pairs_all = if prop == "C10" { matrix_pairs() } else { conv_pairs() };
        let c = Case::from_json(&doc["case"], &pairs_all);
        let o = (pairs_all[c.pair].run)(&c, &prop);
        for v in &o.violations {
            println!("REPLAY-VIOLATION property={} key={} :: {}", prop, v.key, v.what);
        }
        if o.violations.is_empty() {
            println!("REPLAY-OK property={} (profile {})", prop, profile());
        }
        std::process::exit(if o.violations.is_empty() { 0 } else { 1 });
    }

    let level = if prop == "C09" { "fault_enumeration" } else { "exploration" };
    let mut report = Report::new("vecconv", &args, level);
    let tier_s = args.tier.as_str().to_owned();
    let child_args = vec![prop.clone(), tier_s];
    let crash = |idx: usize, status: String, err: String| {
        Violation::new(
            format!("{}/crash", prop),
            format!("the process died ({}) while executing the case; stderr: {}", status, err.lines().last().unwrap_or("")),
            cases[idx].to_json(&pairs),
        )
    };
    // the same enumeration in the debug and in the release build of runtime + harness
    let me = std::env::current_exe().unwrap();
    let target_dir = me.parent().unwrap().parent().unwrap().to_path_buf();
    let mut exes: Vec<(String, PathBuf)> = Vec::new();
    for prof in ["debug", "release"] {
        let p = target_dir.join(prof).join("vecconv");
        if p.exists() {
            exes.push((prof.to_owned(), p));
        }
    }
    if exes.len() != 2 {
        vcommon::machinery_error("both target/debug/vecconv and target/release/vecconv are needed");
    }
    let workers = std::thread::available_parallelism().map(|n| n.get()).unwrap_or(4);
    let mut total_cases = 0u64;
    let mut crashes = 0u64;
    let mut calls = 0u64;
    let mut tags = std::collections::BTreeSet::new();
    let mut samples = Vec::new();
    let mut complete = true;
    let mut per_profile = serde_json::Map::new();
    for (prof, exe) in &exes {
        let mut merged = vcommon::run_isolated(exe, &child_args, cases.len(), workers, &crash);
        // replay confirmation: every distinct unlisted key once more in a fresh process
        let mut seen = std::collections::BTreeSet::new();
        let used_workers = workers.max(1).min(cases.len().max(1));
        for v in merged.violations.iter_mut() {
            if !seen.insert(v.key.clone()) {
                continue;
            }
            let c = Case::from_json(&v.case, &pairs);
            let idx = cases.iter().position(|x| {
                x.pair == c.pair && x.n == c.n && x.pattern == c.pattern && x.fail == c.fail && x.mode == c.mode && x.extra_cap == c.extra_cap && x.entry == c.entry
            });
            if let Some(idx) = idx {
                let again = vcommon::run_single(exe, &child_args, idx, &crash);
                // memory damage does not fail the same way twice: any violation of the re-run case
                // confirms; a death of the process is reported even if the case survives alone
                if again.is_empty() && !v.key.ends_with("/crash") {
                    // alone the case passes: does it fail after the cases that ran before it in
                    // its process of the sweep? Then the code under test keeps state between
                    // calls, and the violation is real (the replay file names the prefix).
                    let with_prefix = vcommon::run_prefix(exe, &child_args, idx, used_workers, &crash);
                    if with_prefix.is_empty() {
                        vcommon::machinery_error(&format!("violation {} did not reproduce on replay of case #{} (alone, and after the cases that preceded it in its process)", v.key, idx));
                    }
                    v.what = format!("{} [history-dependent: the case passes alone in a fresh process and fails after the {} cases that precede it in process {} of {} of the sweep (`vecconv {} --child {}/{}/0/{}`)]", v.what, idx / used_workers, idx % used_workers, used_workers, child_args.join(" "), idx % used_workers, used_workers, idx / used_workers + 1);
                }
            }
        }
        total_cases += merged.cases_run;
        crashes += merged.crashes;
        calls += merged.stats.get("converter_calls").copied().unwrap_or(0);
        complete &= merged.complete && merged.cases_run == cases.len() as u64;
        per_profile.insert(prof.clone(), json!({"cases": merged.cases_run, "violating": merged.violations_total, "crashes": merged.crashes}));
        for t in merged.tags {
            tags.insert(t);
        }
        samples.extend(merged.samples);
        report.violations_total += merged.violations_total;
        for v in merged.violations {
            if report.violations.len() < vcommon::MAX_KEPT_VIOLATIONS {
                report.violations.push(v);
            }
        }
    }
    samples.truncate(6);
    let rule = match prop.as_str() {
        "C08" => format!("every failure-free case: {} element type pairs of equal layout x every length 0..={} x every converted/abandoned pattern x previous-output use {{ignore, read, modify}} x spare capacity {{0,2}} x both entry points, in debug and release builds, plus long vectors (lengths 9, 12, 17; seven patterns; three pairs); each case is distinct by construction; non-trivial = at least one element (n>0)", pairs.len(), max_n),
        "C09" => format!("every failing case: {} element type pairs x every length 1..={} x every failure position x 4 failure kinds (Err, panic before output / after output built / after input dropped) x every converted/abandoned pattern before the failure x previous-output use x spare capacity x entry point, in debug and release builds, plus long vectors (lengths 9, 12, 17; every failure position and kind; seven patterns; three pairs); all distinct, all non-trivial", pairs.len(), max_n),
        _ => format!("every ordered pair of {} element types of a (size, align) matrix ({} pairs, {} with different layout) x every length 0..={} x capacity {{len, len+2; 0 = never allocated}} x both entry points x two patterns, in debug and release builds; every case of a mismatching pair is attempted twice in its process - at once, and again after legal conversions (T -> T, U -> U, u32 -> i32) - so that a refusal that depends on earlier calls is part of the case; non-trivial = the two types differ in layout", (pairs.len() as f64).sqrt() as usize, pairs.len(), pairs.iter().filter(|p| !p.same_layout).count(), max_n),
    };
    let nontrivial = match prop.as_str() {
        "C08" => cases.iter().filter(|c| c.n > 0).count(),
        "C09" => cases.len(),
        _ => cases.iter().filter(|c| !pairs[c.pair].same_layout).count(),
    } * exes.len();
    report
        .cov("evaluations", total_cases)
        .cov("distinct_nontrivial", nontrivial as u64)
        .cov("rule", rule)
        .cov("samples", samples)
        .cov("exhaustive", complete)
        .cov("max_len", max_n as u64)
        .cov("element_type_pairs", pairs.iter().map(|p| p.name).collect::<Vec<_>>())
        .cov("converter_calls_observed", calls)
        .cov("distinct_outcomes", tags.len() as u64)
        .cov("outcome_classes", tags.iter().take(40).cloned().collect::<Vec<_>>())
        .cov("child_crashes", crashes)
        .cov("per_profile", Value::Object(per_profile));
    report.assume("the instrumented element types report every construction and destruction to the ledger; plain (Copy) element types are only value-checked");
    report.assume("the allocator log pairs alloc/dealloc events per address (address re-use by a later allocation is not counted as a release)");
    report.assume("one host (x86-64), one toolchain; debug and release profiles");
    std::process::exit(report.finish());
}
