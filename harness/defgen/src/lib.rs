//! Engine B, stage 1: enumerates a bounded family of record definitions over the instrumented
//! field types, runs each through the real typed builder API and the real `generate()`, and emits
//! the generated module plus a mechanical glue module (uses only the public generated API).

use std::fmt::Write as _;

use truc::{
    generator::{
        config::GeneratorConfig,
        fragment::{clone::CloneImplGenerator, serde::SerdeImplGenerator, FragmentGenerator},
        generate,
    },
    record::{
        definition::{
            builder::native::{variant, DatumDefinitionOverride, NativeRecordDefinitionBuilder},
            DatumId, NativeDatumDetails, RecordDefinition,
        },
        type_resolver::HostTypeResolver,
    },
};

pub type Builder = NativeRecordDefinitionBuilder<HostTypeResolver>;
pub type Def = RecordDefinition<NativeDatumDetails>;

pub struct TypeSpec {
    pub short: &'static str,
    pub copy: bool,
    pub droppable: bool,
    pub zst: bool,
    pub size: usize,
    pub align: usize,
    /// the same addition with overridden recorded information (engine D perturbs it)
    pub add_override: fn(&mut Builder, &str, DatumDefinitionOverride) -> Result<DatumId, String>,
    add: fn(&mut Builder, &str) -> Result<DatumId, String>,
    add_uninit: Option<fn(&mut Builder, &str) -> Result<DatumId, String>>,
}

macro_rules! ty {
    ($t:ident, copy) => {
        TypeSpec {
            short: stringify!($t),
            copy: true,
            droppable: false,
            zst: std::mem::size_of::<vtypes::$t>() == 0,
            size: std::mem::size_of::<vtypes::$t>(),
            align: std::mem::align_of::<vtypes::$t>(),
            add_override: |b, n, o| b.add_datum_override::<vtypes::$t, _>(n, o),
            add: |b, n| b.add_datum::<vtypes::$t, _>(n),
            add_uninit: Some(|b, n| b.add_datum_allow_uninit::<vtypes::$t, _>(n)),
        }
    };
    ($t:ident, own) => {
        TypeSpec {
            short: stringify!($t),
            copy: false,
            droppable: true,
            zst: std::mem::size_of::<vtypes::$t>() == 0,
            size: std::mem::size_of::<vtypes::$t>(),
            align: std::mem::align_of::<vtypes::$t>(),
            add_override: |b, n, o| b.add_datum_override::<vtypes::$t, _>(n, o),
            add: |b, n| b.add_datum::<vtypes::$t, _>(n),
            add_uninit: None,
        }
    };
}

pub fn types() -> Vec<TypeSpec> {
    vec![
        ty!(Pod4, copy),   // 0
        ty!(Own8, own),    // 1
        ty!(OwnZ, own),    // 2
        ty!(Pod8, copy),   // 3
        ty!(Pod1, copy),   // 4
        ty!(Pod2, copy),   // 5
        ty!(Pod16, copy),  // 6
        ty!(Pod3, copy),   // 7
        ty!(PodZ, copy),   // 8
        ty!(OwnBox, own),  // 9
        ty!(Own3, own),    // 10
        ty!(Own12, own),   // 11
        ty!(Own24, own),   // 12
        ty!(Own16a, own),  // 13
        ty!(OwnZ4, own),   // 14
        ty!(Own1, own),    // 15 (size 2, align 1)
        ty!(Own20, own),   // 16 (20/4)
        ty!(Own33, own),   // 17 (33/1)
        ty!(Pod20, copy),  // 18 (20/4)
    ]
}

pub fn type_index(short: &str) -> usize {
    types().iter().position(|t| t.short == short).unwrap_or_else(|| panic!("type {}", short))
}

#[derive(Clone, Debug, PartialEq, Eq)]
pub struct DStep {
    /// positions in the id-sorted list of the previous variant
    pub remove: Vec<usize>,
    pub ghost: bool,
    /// the ghost is removed after the first addition of the step instead of at once
    pub ghost_late: bool,
    /// (type index, may-be-uninit)
    pub add: Vec<(usize, bool)>,
    pub strat: u8,
}

#[derive(Clone, Debug, PartialEq, Eq)]
pub struct DefSpec {
    pub name: String,
    pub steps: Vec<DStep>,
    /// name of a removed datum is given again to the first datum added in the same step
    pub reuse_names: bool,
}

pub const STRATEGIES: [&str; 4] = ["simple", "basic", "append_data", "append_data_reverse"];

impl DefSpec {
    pub fn describe(&self) -> String {
        let ts = types();
        let mut s = String::new();
        for (i, st) in self.steps.iter().enumerate() {
            if i > 0 {
                s.push_str(" ; ");
            }
            write!(s, "{}[", STRATEGIES[st.strat as usize]).unwrap();
            for r in &st.remove {
                write!(s, "-@{} ", r).unwrap();
            }
            if st.ghost {
                s.push_str(if st.ghost_late { "ghost-late " } else { "ghost " });
            }
            for (t, u) in &st.add {
                write!(s, "+{}{} ", ts[*t].short, if *u { "?" } else { "" }).unwrap();
            }
            s.push(']');
        }
        if self.reuse_names {
            s.push_str(" (names re-used)");
        }
        s
    }
}

pub struct Built {
    pub def: Def,
    /// type index of every datum id (None for ghosts)
    pub type_of: Vec<Option<usize>>,
    /// ids of the regular data in the order they were declared (added); not derived from the ids
    pub declared: Vec<DatumId>,
}

fn close(b: &mut Builder, strat: u8) {
    match strat {
        0 => b.close_record_variant_with(variant::simple),
        1 => b.close_record_variant_with(variant::basic),
        2 => b.close_record_variant_with(variant::append_data),
        _ => b.close_record_variant_with(variant::append_data_reverse),
    };
}

/// One typed addition of a history replaced by the caller's own way of adding a datum (engine D:
/// the same type with perturbed recorded information, or a field of another crate's type).
pub struct Subject<'a> {
    /// index among the typed additions of the history, in the order they are made
    pub slot: usize,
    /// (builder, field name, type index of the history, may-be-uninit flag of the history)
    pub add: &'a dyn Fn(&mut Builder, &str, usize, bool) -> Result<DatumId, String>,
}

impl DefSpec {
    pub fn slots(&self) -> usize {
        self.steps.iter().map(|s| s.add.len()).sum()
    }
}

pub fn build(spec: &DefSpec) -> Built {
    build_with(spec, None)
}

pub fn build_with(spec: &DefSpec, subject: Option<&Subject>) -> Built {
    let ts = types();
    let mut slot = 0usize;
    let mut b: Builder = NativeRecordDefinitionBuilder::new(HostTypeResolver);
    let mut live: Vec<(DatumId, String)> = vec![];
    let mut types_by_id: std::collections::BTreeMap<DatumId, Option<usize>> = Default::default();
    let mut declared: Vec<DatumId> = vec![];
    let mut counter = 0usize;
    for st in &spec.steps {
        let mut freed: Vec<String> = vec![];
        let mut sorted = live.clone();
        sorted.sort();
        for &p in &st.remove {
            let (id, name) = sorted[p].clone();
            b.remove_datum(id).expect("remove");
            live.retain(|(i, _)| *i != id);
            freed.push(name);
        }
        let mut pending_ghost = None;
        if st.ghost {
            let id = b.add_datum::<vtypes::Own12, _>(format!("ghost{}", counter)).expect("ghost");
            types_by_id.insert(id, None);
            counter += 1;
            if st.ghost_late && !st.add.is_empty() {
                pending_ghost = Some(id);
            } else {
                b.remove_datum(id).expect("remove ghost");
            }
        }
        for &(t, uninit) in &st.add {
            let name = if spec.reuse_names && !freed.is_empty() {
                freed.remove(0)
            } else {
                format!("f{}", counter)
            };
            let id = match subject {
                Some(sub) if sub.slot == slot => (sub.add)(&mut b, &name, t, uninit),
                _ if uninit => (ts[t].add_uninit.expect("may-be-uninit needs a Copy type"))(&mut b, &name),
                _ => (ts[t].add)(&mut b, &name),
            }
            .expect("add");
            slot += 1;
            types_by_id.insert(id, Some(t));
            declared.retain(|d| *d != id);
            declared.push(id);
            counter += 1;
            live.push((id, name));
            if let Some(g) = pending_ghost.take() {
                b.remove_datum(g).expect("remove ghost");
            }
        }
        close(&mut b, st.strat);
    }
    let def = b.build();
    let n = def.datum_definitions().count();
    let type_of = (0..n).map(|i| types_by_id.get(&DatumId::from(i)).copied().flatten()).collect();
    Built { def, type_of, declared }
}

pub fn config(clone: bool, serde: bool) -> GeneratorConfig {
    let mut custom: Vec<Box<dyn FragmentGenerator>> = Vec::new();
    if clone {
        custom.push(Box::new(CloneImplGenerator));
    }
    if serde {
        custom.push(Box::new(SerdeImplGenerator));
    }
    GeneratorConfig::default_with_custom_generators(custom)
}

pub fn generate_module(def: &Def, clone: bool, serde: bool) -> String {
    generate(def, &config(clone, serde))
}

// ---------------------------------------------------------------------------------------
// glue emission
// ---------------------------------------------------------------------------------------

struct V {
    /// datum ids in id order
    data: Vec<usize>,
    /// datum ids in declaration order (what the serialised form must follow)
    declared: Vec<usize>,
    minus: Vec<usize>,
    plus: Vec<usize>,
}

fn id_num(id: DatumId) -> usize {
    id.to_string().parse().unwrap()
}

/// Emits the glue module text for one definition. `module` is the module name, `gen_file` the file
/// name (inside OUT_DIR) holding the generated code.
/// Field names of `pub struct <name>` as the generated code declares it (`Some(vec![])` for a
/// unit struct, `None` when the struct is not found).
fn struct_fields(code: &str, name: &str) -> Option<Vec<String>> {
    for head in [format!("pub struct {} {{", name), format!("pub struct {}<", name)] {
        if let Some(start) = code.find(&head) {
            let body_start = start + code[start..].find('{')? + 1;
            let body_end = body_start + code[body_start..].find('}')?;
            let mut out = vec![];
            for line in code[body_start..body_end].lines() {
                if let Some(rest) = line.trim().strip_prefix("pub ") {
                    if let Some((n, _)) = rest.split_once(':') {
                        out.push(n.trim().to_owned());
                    }
                }
            }
            return Some(out);
        }
    }
    if code.contains(&format!("pub struct {};", name)) {
        return Some(vec![]);
    }
    None
}

/// Names of the data fields of `Record<n>AndUnpackedOut` as the generated code declares them.
fn out_struct_fields(code: &str, n: usize) -> Option<Vec<String>> {
    let head = format!("pub struct Record{}AndUnpackedOut<", n);
    let start = code.find(&head)?;
    let body_start = start + code[start..].find('{')? + 1;
    let body_end = body_start + code[body_start..].find('}')?;
    let mut out = vec![];
    for line in code[body_start..body_end].lines() {
        let l = line.trim();
        if let Some(rest) = l.strip_prefix("pub ") {
            if let Some((name, _)) = rest.split_once(':') {
                if name.trim() != "record" {
                    out.push(name.trim().to_owned());
                }
            }
        }
    }
    Some(out)
}

/// `code` is the generated module: the fields a conversion hands back are taken from the struct
/// the generator really emitted (the explorer compares them with the removed data at run time),
/// so that a wrong set is a verdict of the run instead of a compile error of the glue.
pub fn emit_glue(spec: &DefSpec, built: &Built, module: &str, gen_file: &str, code: &str) -> String {
    let def = &built.def;
    let ts = types();
    let n_data = def.datum_definitions().count();
    let variants: Vec<V> = {
        let mut out: Vec<V> = vec![];
        for v in def.variants() {
            let data: Vec<usize> = v.data_sorted().map(id_num).collect();
            let prev: Vec<usize> = out.last().map(|p| p.data.clone()).unwrap_or_default();
            let minus = prev.iter().copied().filter(|d| !data.contains(d)).collect();
            let plus = data.iter().copied().filter(|d| !prev.contains(d)).collect();
            let declared: Vec<usize> = built.declared.iter().map(|d| id_num(*d)).filter(|d| data.contains(d)).collect();
            out.push(V { data, declared, minus, plus });
        }
        out
    };
    let nv = variants.len();
    let datum = |d: usize| def.datum_definitions().nth(d).unwrap();
    let tyname = |d: usize| datum(d).details().type_name().to_owned();
    let fname = |d: usize| datum(d).name().to_owned();
    let uninit = |d: usize| datum(d).details().allow_uninit();

    let mut s = String::new();
    let w = &mut s;
    writeln!(w, "pub mod {} {{", module).unwrap();
    writeln!(w, "    #![allow(dead_code, unused_variables, unused_mut, unused_imports, unreachable_patterns, unreachable_code, clippy::all)]").unwrap();
    writeln!(w, "    pub mod gen {{\n        #![allow(dead_code, unused_variables, clippy::all)]\n        include!(concat!(env!(\"OUT_DIR\"), \"/{}\"));\n    }}", gen_file).unwrap();
    writeln!(w, "    use self::gen::*;\n    use reccore::*;\n    use vtypes::Field;").unwrap();
    // record enum
    writeln!(w, "    pub enum Rec<const CAP: usize> {{").unwrap();
    for k in 0..nv {
        writeln!(w, "        V{}(Place<CappedRecord{}<CAP>>),", k, k).unwrap();
    }
    if nv == 0 {
        writeln!(w, "        Never(std::marker::PhantomData<[u8; CAP]>),").unwrap();
    }
    writeln!(w, "    }}").unwrap();
    writeln!(w, "    pub struct G<const CAP: usize> {{ meta: Meta, slots: Vec<Option<Rec<CAP>>> }}").unwrap();
    // meta
    writeln!(w, "    pub fn meta() -> Meta {{\n        Meta {{").unwrap();
    writeln!(w, "            name: {:?}.to_owned(),", spec.name).unwrap();
    writeln!(w, "            history: {:?}.to_owned(),", spec.describe()).unwrap();
    writeln!(w, "            max_size: MAX_SIZE,").unwrap();
    writeln!(w, "            declared_max_size: {},", def.max_size()).unwrap();
    writeln!(w, "            declared_max_align: {},", def.max_type_align()).unwrap();
    writeln!(w, "            data: vec![").unwrap();
    for d in 0..n_data {
        let dd = datum(d);
        let t = built.type_of[d];
        writeln!(
            w,
            "                FieldMeta {{ id: {}, name: {:?}, ty: {:?}, size: {}, align: {}, offset: {}, uninit: {}, droppable: {}, zst: {}, ghost: {} }},",
            d,
            dd.name(),
            dd.details().type_name(),
            dd.details().size(),
            dd.details().type_align(),
            if t.is_some() { dd.details().offset() } else { 0 },
            dd.details().allow_uninit(),
            t.map_or(false, |t| ts[t].droppable),
            t.map_or(false, |t| ts[t].zst),
            t.is_none()
        )
        .unwrap();
    }
    writeln!(w, "            ],\n            variants: vec![").unwrap();
    for v in &variants {
        writeln!(w, "                VariantMeta {{ fields: vec!{:?}, declared: vec!{:?}, minus: vec!{:?}, plus: vec!{:?} }},", v.data, v.declared, v.minus, v.plus).unwrap();
    }
    writeln!(w, "            ],\n        }}\n    }}").unwrap();
    writeln!(w, "    pub fn instantiate<const CAP: usize>() -> Box<dyn Glue> {{ Box::new(G::<CAP> {{ meta: meta(), slots: vec![None, None] }}) }}").unwrap();
    writeln!(w, "    pub fn max_size() -> usize {{ MAX_SIZE }}").unwrap();

    // helpers to write struct literals
    // The literals only name the fields the emitted struct really has (a struct that lacks a field
    // it should have is found out at run time: the value is then never stored, and the model says
    // it is), so that a deviating interface is a verdict of the run and not a build failure.
    let lit_full = |strukt: &str, fields: &[usize], vals: &str, base: &[usize]| -> String {
        let emitted = struct_fields(code, strukt);
        // value index = position of the datum in `base`
        fields
            .iter()
            .filter(|d| emitted.as_ref().map_or(true, |e| e.contains(&fname(**d))))
            .map(|d| format!("{}: <{} as Field>::make({}[{}])", fname(*d), tyname(*d), vals, base.iter().position(|x| x == d).unwrap()))
            .collect::<Vec<_>>()
            .join(", ")
    };

    writeln!(w, "    impl<const CAP: usize> Glue for G<CAP> {{").unwrap();
    writeln!(w, "        fn meta(&self) -> &Meta {{ &self.meta }}").unwrap();
    writeln!(w, "        fn cap(&self) -> usize {{ CAP }}").unwrap();
    writeln!(w, "        fn variant_of(&self, slot: usize) -> Option<usize> {{ match self.slots[slot].as_ref()? {{").unwrap();
    for k in 0..nv {
        writeln!(w, "            Rec::V{}(_) => Some({}),", k, k).unwrap();
    }
    writeln!(w, "            _ => None,\n        }} }}").unwrap();
    // layout
    writeln!(w, "        fn layout(&self) -> Vec<(usize, usize)> {{ vec![").unwrap();
    for k in 0..nv {
        writeln!(w, "            (std::mem::size_of::<CappedRecord{}<CAP>>(), std::mem::align_of::<CappedRecord{}<CAP>>()),", k, k).unwrap();
    }
    writeln!(w, "        ] }}").unwrap();
    writeln!(w, "        fn uninit_layout(&self) -> (usize, usize) {{ (std::mem::size_of::<RecordUninitialized<CAP>>(), std::mem::align_of::<RecordUninitialized<CAP>>()) }}").unwrap();
    // addr
    writeln!(w, "        fn addr(&self, slot: usize) -> usize {{ match self.slots[slot].as_ref().expect(\"empty slot\") {{").unwrap();
    for k in 0..nv {
        writeln!(w, "            Rec::V{}(p) => p.get() as *const _ as usize,", k).unwrap();
    }
    writeln!(w, "            _ => 0,\n        }} }}").unwrap();
    // construct
    writeln!(w, "        fn construct(&mut self, slot: usize, place: Placement, variant: usize, ctor: Ctor, vals: &[Tok]) {{").unwrap();
    writeln!(w, "            let rec = match variant {{").unwrap();
    for (k, v) in variants.iter().enumerate() {
        let mandatory: Vec<usize> = v.data.iter().copied().filter(|d| !uninit(*d)).collect();
        writeln!(w, "                {} => Rec::V{}(Place::build(place, || match ctor {{", k, k).unwrap();
        writeln!(w, "                    Ctor::New => CappedRecord{}::<CAP>::new(UnpackedRecord{} {{ {} }}),", k, k, lit_full(&format!("UnpackedRecord{}", k), &v.data, "vals", &v.data)).unwrap();
        writeln!(w, "                    Ctor::NewUninit => CappedRecord{}::<CAP>::new_uninit(UnpackedUninitRecord{} {{ {} }}),", k, k, lit_full(&format!("UnpackedUninitRecord{}", k), &mandatory, "vals", &v.data)).unwrap();
        writeln!(w, "                    Ctor::FromFull => <CappedRecord{}<CAP> as From<UnpackedRecord{}>>::from(UnpackedRecord{} {{ {} }}),", k, k, k, lit_full(&format!("UnpackedRecord{}", k), &v.data, "vals", &v.data)).unwrap();
        writeln!(w, "                    Ctor::FromUninit => <CappedRecord{}<CAP> as From<UnpackedUninitRecord{}>>::from(UnpackedUninitRecord{} {{ {} }}),", k, k, k, lit_full(&format!("UnpackedUninitRecord{}", k), &mandatory, "vals", &v.data)).unwrap();
        writeln!(w, "                }})),").unwrap();
    }
    writeln!(w, "                _ => panic!(\"glue: no such variant\"),\n            }};\n            self.slots[slot] = Some(rec);\n        }}").unwrap();
    // get / get_id / set / poke
    for (fn_name, sig, body) in [
        ("get", "&self, slot: usize, datum: usize) -> Tok", "r.{f}().tok()"),
        ("get_id", "&self, slot: usize, datum: usize) -> u64", "r.{f}().id()"),
    ] {
        writeln!(w, "        fn {}({} {{ match self.slots[slot].as_ref().expect(\"empty slot\") {{", fn_name, sig).unwrap();
        for (k, v) in variants.iter().enumerate() {
            writeln!(w, "            Rec::V{}(p) => {{ let r = p.get(); match datum {{", k).unwrap();
            for d in &v.data {
                writeln!(w, "                {} => {},", d, body.replace("{f}", &fname(*d))).unwrap();
            }
            writeln!(w, "                _ => panic!(\"glue: datum not in variant\"),\n            }} }}").unwrap();
        }
        writeln!(w, "            _ => unreachable!(),\n        }} }}").unwrap();
    }
    for (fn_name, body) in [
        ("set", "*r.{f}_mut() = <{t} as Field>::make(tok)"),
        ("poke", "r.{f}_mut().set_tok(tok)"),
    ] {
        writeln!(w, "        fn {}(&mut self, slot: usize, datum: usize, tok: Tok) {{ match self.slots[slot].as_mut().expect(\"empty slot\") {{", fn_name).unwrap();
        for (k, v) in variants.iter().enumerate() {
            writeln!(w, "            Rec::V{}(p) => {{ let r = p.get_mut(); match datum {{", k).unwrap();
            for d in &v.data {
                writeln!(w, "                {} => {{ {}; }}", d, body.replace("{f}", &fname(*d)).replace("{t}", &tyname(*d))).unwrap();
            }
            writeln!(w, "                _ => panic!(\"glue: datum not in variant\"),\n            }} }}").unwrap();
        }
        writeln!(w, "            _ => unreachable!(),\n        }} }}").unwrap();
    }
    // convert
    writeln!(w, "        fn convert(&mut self, slot: usize, form: Form, plus: &[Tok]) -> Vec<(usize, Tok, u64)> {{").unwrap();
    writeln!(w, "            let rec = self.slots[slot].take().expect(\"empty slot\");\n            out_begin();\n            let new = match rec {{").unwrap();
    for k in 0..nv {
        if k + 1 >= nv {
            writeln!(w, "                Rec::V{}(p) => {{ self.slots[slot] = Some(Rec::V{}(p)); panic!(\"glue: last variant\") }}", k, k).unwrap();
            continue;
        }
        let nxt = &variants[k + 1];
        let n = k + 1;
        let mandatory_plus: Vec<usize> = nxt.plus.iter().copied().filter(|d| !uninit(*d)).collect();
        // (datum id, field name) of what the emitted struct hands back
        let handed_back: Vec<(usize, String)> = match out_struct_fields(code, n) {
            Some(names) => names
                .into_iter()
                .filter_map(|name| (0..n_data).find(|d| fname(*d) == name && variants[k].data.contains(d)).map(|d| (d, name)))
                .collect(),
            None => nxt.minus.iter().map(|d| (*d, fname(*d))).collect(),
        };
        let out_fields: String = handed_back.iter().map(|(_, name)| format!(", {}", name)).collect();
        let out_push: String = handed_back.iter().map(|(d, name)| format!("out_push({}, {}.tok(), {}.id()); ", d, name, name)).collect();
        writeln!(w, "                Rec::V{}(p) => Rec::V{}(p.convert(|from: CappedRecord{}<CAP>| -> CappedRecord{}<CAP> {{ match form {{", k, n, k, n).unwrap();
        writeln!(w, "                    Form::Full => CappedRecord{}::<CAP>::from((from, UnpackedRecordIn{} {{ {} }})),", n, n, lit_full(&format!("UnpackedRecordIn{}", n), &nxt.plus, "plus", &nxt.plus)).unwrap();
        writeln!(w, "                    Form::Uninit => CappedRecord{}::<CAP>::from((from, UnpackedUninitRecordIn{} {{ {} }})),", n, n, lit_full(&format!("UnpackedUninitRecordIn{}", n), &mandatory_plus, "plus", &nxt.plus)).unwrap();
        writeln!(w, "                    Form::FullOut => {{ let Record{}AndUnpackedOut {{ record{} }} = Record{}AndUnpackedOut::<CAP>::from((from, UnpackedRecordIn{} {{ {} }})); {} record }}", n, out_fields, n, n, lit_full(&format!("UnpackedRecordIn{}", n), &nxt.plus, "plus", &nxt.plus), out_push).unwrap();
        writeln!(w, "                    Form::UninitOut => {{ let Record{}AndUnpackedOut {{ record{} }} = Record{}AndUnpackedOut::<CAP>::from((from, UnpackedUninitRecordIn{} {{ {} }})); {} record }}", n, out_fields, n, n, lit_full(&format!("UnpackedUninitRecordIn{}", n), &mandatory_plus, "plus", &nxt.plus), out_push).unwrap();
        writeln!(w, "                }} }})),").unwrap();
    }
    writeln!(w, "                _ => unreachable!(),\n            }};\n            self.slots[slot] = Some(new);\n            out_take()\n        }}").unwrap();
    // unpack
    writeln!(w, "        fn unpack(&mut self, slot: usize) -> Vec<(usize, Tok, u64)> {{ match self.slots[slot].take().expect(\"empty slot\") {{").unwrap();
    for (k, v) in variants.iter().enumerate() {
        let names: Vec<String> = v.data.iter().map(|d| fname(*d)).collect();
        let pushes: String = v.data.iter().map(|d| format!("({}, {}.tok(), {}.id())", d, fname(*d), fname(*d))).collect::<Vec<_>>().join(", ");
        writeln!(w, "            Rec::V{}(p) => {{ let UnpackedRecord{} {{ {} }} = p.into_ours().unpack(); vec![{}] }}", k, k, names.join(", "), pushes).unwrap();
    }
    writeln!(w, "            _ => unreachable!(),\n        }} }}").unwrap();
    writeln!(w, "        fn drop_slot(&mut self, slot: usize) {{ self.slots[slot] = None; }}").unwrap();
    // clone
    writeln!(w, "        fn clone_into(&mut self, src: usize, dst: usize) {{ let c = match self.slots[src].as_ref().expect(\"empty slot\") {{").unwrap();
    for k in 0..nv {
        writeln!(w, "            Rec::V{}(p) => Rec::V{}(Place::Inline(p.get().clone())),", k, k).unwrap();
    }
    writeln!(w, "            _ => unreachable!(),\n        }}; self.slots[dst] = Some(c); }}").unwrap();
    writeln!(w, "        fn clone_from_slot(&mut self, dst: usize, src: usize) {{\n            let mut d = self.slots[dst].take().expect(\"empty slot\");\n            {{ let s = self.slots[src].as_ref().expect(\"empty slot\");\n            let r = std::panic::catch_unwind(std::panic::AssertUnwindSafe(|| match (&mut d, s) {{").unwrap();
    for k in 0..nv {
        writeln!(w, "                (Rec::V{}(a), Rec::V{}(b)) => a.get_mut().clone_from(b.get()),", k, k).unwrap();
    }
    writeln!(w, "                _ => panic!(\"glue: clone_from between different variants\"),\n            }}));\n            self.slots[dst] = Some(d);\n            if let Err(p) = r {{ std::panic::resume_unwind(p); }} }}\n        }}").unwrap();
    // serde
    writeln!(w, "        fn to_json(&self, slot: usize) -> Result<String, String> {{ match self.slots[slot].as_ref().expect(\"empty slot\") {{").unwrap();
    for k in 0..nv {
        writeln!(w, "            Rec::V{}(p) => serde_json::to_string(p.get()).map_err(|e| e.to_string()),", k).unwrap();
    }
    writeln!(w, "            _ => unreachable!(),\n        }} }}").unwrap();
    writeln!(w, "        fn to_bincode(&self, slot: usize) -> Result<Vec<u8>, String> {{ match self.slots[slot].as_ref().expect(\"empty slot\") {{").unwrap();
    for k in 0..nv {
        writeln!(w, "            Rec::V{}(p) => bincode::serialize(p.get()).map_err(|e| e.to_string()),", k).unwrap();
    }
    writeln!(w, "            _ => unreachable!(),\n        }} }}").unwrap();
    writeln!(w, "        fn from_json(&mut self, slot: usize, variant: usize, text: &str) -> Result<(), String> {{ let rec = match variant {{").unwrap();
    for k in 0..nv {
        writeln!(w, "            {} => Rec::V{}(Place::Inline(serde_json::from_str::<CappedRecord{}<CAP>>(text).map_err(|e| e.to_string())?)),", k, k, k).unwrap();
    }
    writeln!(w, "            _ => panic!(\"glue: no such variant\"),\n        }}; self.slots[slot] = Some(rec); Ok(()) }}").unwrap();
    writeln!(w, "        fn to_json_value(&self, slot: usize) -> Result<String, String> {{ match self.slots[slot].as_ref().expect(\"empty slot\") {{").unwrap();
    for k in 0..nv {
        writeln!(w, "            Rec::V{}(p) => serde_json::to_value(p.get()).map(|v| v.to_string()).map_err(|e| e.to_string()),", k).unwrap();
    }
    writeln!(w, "            _ => unreachable!(),\n        }} }}").unwrap();
    writeln!(w, "        fn from_json_value(&mut self, slot: usize, variant: usize, text: &str) -> Result<(), String> {{ let value: serde_json::Value = serde_json::from_str(text).map_err(|e| e.to_string())?; let rec = match variant {{").unwrap();
    for k in 0..nv {
        writeln!(w, "            {} => Rec::V{}(Place::Inline(serde_json::from_value::<CappedRecord{}<CAP>>(value).map_err(|e| e.to_string())?)),", k, k, k).unwrap();
    }
    writeln!(w, "            _ => panic!(\"glue: no such variant\"),\n        }}; self.slots[slot] = Some(rec); Ok(()) }}").unwrap();
    writeln!(w, "        fn from_bincode(&mut self, slot: usize, variant: usize, bytes: &[u8]) -> Result<(), String> {{ let rec = match variant {{").unwrap();
    for k in 0..nv {
        writeln!(w, "            {} => Rec::V{}(Place::Inline(bincode::deserialize::<CappedRecord{}<CAP>>(bytes).map_err(|e| e.to_string())?)),", k, k, k).unwrap();
    }
    writeln!(w, "            _ => panic!(\"glue: no such variant\"),\n        }}; self.slots[slot] = Some(rec); Ok(()) }}").unwrap();
    writeln!(w, "    }}\n}}").unwrap();
    s
}

// ---------------------------------------------------------------------------------------
// families
// ---------------------------------------------------------------------------------------

fn subsets(m: usize) -> Vec<Vec<usize>> {
    (0..(1usize << m))
        .map(|mask| (0..m).filter(|i| mask >> i & 1 == 1).collect())
        .collect()
}

fn sequences(alphabet: &[(usize, bool)], max: usize) -> Vec<Vec<(usize, bool)>> {
    let mut out = vec![vec![]];
    let mut layer: Vec<Vec<(usize, bool)>> = vec![vec![]];
    for _ in 0..max {
        let mut next = vec![];
        for s in &layer {
            for a in alphabet {
                let mut t = s.clone();
                t.push(*a);
                next.push(t);
            }
        }
        out.extend(next.iter().cloned());
        layer = next;
    }
    out
}

/// All histories with `adds.len()` variants, at most `adds[k]` additions in variant k, any removal
/// subset, over `alphabet`, closing with each of `strategies`.
pub fn histories(alphabet: &[(usize, bool)], adds: &[usize], strategies: &[u8], prefix: &str) -> Vec<DefSpec> {
    let per_level: Vec<&[u8]> = adds.iter().map(|_| strategies).collect();
    histories_mixed(alphabet, adds, &per_level, prefix)
}

/// The same with its own strategy menu for every variant (`strategies[k]` closes variant k).
pub fn histories_mixed(alphabet: &[(usize, bool)], adds: &[usize], strategies: &[&[u8]], prefix: &str) -> Vec<DefSpec> {
    let mut out: Vec<DefSpec> = vec![];
    let mut frontier: Vec<(Vec<DStep>, usize)> = vec![(vec![], 0)];
    for (level, max_add) in adds.iter().enumerate() {
        let seqs = sequences(alphabet, *max_add);
        let mut next = vec![];
        for (hist, live) in &frontier {
            for rem in subsets(*live) {
                for add in &seqs {
                    if level > 0 && rem.is_empty() && add.is_empty() {
                        continue;
                    }
                    for &strat in strategies[level] {
                        let mut h = hist.clone();
                        h.push(DStep { remove: rem.clone(), ghost: false, ghost_late: false, add: add.clone(), strat });
                        next.push((h, live - rem.len() + add.len()));
                    }
                }
            }
        }
        for (h, _) in &next {
            out.push(DefSpec { name: String::new(), steps: h.clone(), reuse_names: false });
        }
        frontier = next;
    }
    for (i, d) in out.iter_mut().enumerate() {
        d.name = format!("{}{}", prefix, i);
    }
    out
}

fn step(remove: &[usize], add: &[(&str, bool)], strat: u8) -> DStep {
    DStep { remove: remove.to_vec(), ghost: false, ghost_late: false, add: add.iter().map(|(t, u)| (type_index(t), *u)).collect(), strat }
}

/// Hand-picked shapes covering every instrumented type, three variants, empty / only-removal /
/// only-may-be-uninit variants, ghost data, a re-used name, alignment growing in a later variant,
/// zero-size data added by a conversion, bytes of removed data re-used, every strategy.
pub fn zoo() -> Vec<DefSpec> {
    let f = false;
    let t = true;
    let mut z: Vec<(Vec<DStep>, bool)> = vec![
        // every type once, in one variant, then everything removed
        (vec![step(&[], &[("Pod1", t), ("Pod2", t), ("Pod4", t), ("Pod8", t), ("Pod16", t)], 0), step(&[0, 1, 2, 3, 4], &[], 0)], f),
        (vec![step(&[], &[("Own8", f), ("OwnBox", f), ("Own3", f), ("Own12", f)], 0), step(&[1], &[("Own24", f)], 0)], f),
        (vec![step(&[], &[("Own24", f), ("Own16a", f), ("OwnZ", f), ("Own1", f)], 0), step(&[0, 2], &[("Own3", f), ("OwnZ4", f)], 0)], f),
        (vec![step(&[], &[("Pod3", t), ("PodZ", t), ("Pod1", f), ("Pod16", f)], 0), step(&[1], &[("Pod3", f)], 0)], f),
        // empty first variant, then data
        (vec![step(&[], &[], 0), step(&[], &[("Own8", f), ("Pod4", t)], 0), step(&[0], &[], 0)], f),
        // alignment grows in a later variant
        (vec![step(&[], &[("Pod1", t)], 0), step(&[], &[("Pod8", t)], 0), step(&[], &[("Own16a", f)], 0)], f),
        (vec![step(&[], &[("Own3", f)], 0), step(&[], &[("OwnBox", f)], 0)], f),
        (vec![step(&[], &[("Pod2", t), ("Pod1", t)], 0), step(&[], &[("Pod4", t)], 0), step(&[], &[("Own24", f)], 0)], f),
        // zero-size droppable data added by a conversion / removed by a conversion
        (vec![step(&[], &[("Own8", f)], 0), step(&[], &[("OwnZ", f)], 0), step(&[1], &[("OwnZ4", f)], 0)], f),
        (vec![step(&[], &[("OwnZ", f), ("Pod4", t)], 0), step(&[0], &[("OwnZ", f)], 0)], f),
        (vec![step(&[], &[("PodZ", t)], 0), step(&[], &[("OwnZ", f), ("PodZ", f)], 0)], f),
        // carried-over non-Copy data, only Copy additions / removal-only variant
        (vec![step(&[], &[("OwnBox", f), ("Pod4", t)], 0), step(&[], &[("Pod8", t)], 0), step(&[1], &[], 0)], f),
        // only may-be-uninit variants
        (vec![step(&[], &[("Pod4", t), ("Pod8", t)], 0), step(&[], &[("Pod2", t)], 0)], f),
        // removed bytes re-used by an added field of equal shape, and of smaller shape
        (vec![step(&[], &[("Own8", f), ("Own8", f), ("Own8", f)], 0), step(&[1], &[("Own8", f)], 0), step(&[0], &[("Pod4", t), ("Pod4", f)], 0)], f),
        (vec![step(&[], &[("Own24", f), ("Own24", f), ("Pod8", t)], 0), step(&[0], &[("Pod8", f)], 0), step(&[], &[("Own12", f)], 0)], f),
        (vec![step(&[], &[("Pod4", t)], 0), step(&[], &[("Own24", f)], 0), step(&[], &[("Pod8", t)], 0), step(&[], &[("Pod8", f)], 0)], f),
        // size not a multiple of the alignment, gaps
        (vec![step(&[], &[("Own3", f), ("Own12", f), ("Own3", f)], 0), step(&[1], &[("Own8", f), ("Pod1", t)], 0)], f),
        (vec![step(&[], &[("Pod1", t), ("Own24", f), ("Pod1", t)], 0), step(&[0], &[("Pod2", t)], 0), step(&[], &[("Pod1", f)], 0)], f),
        // name re-used after a removal (same step)
        (vec![step(&[], &[("Own8", f), ("Pod4", t)], 0), step(&[0], &[("OwnBox", f)], 0)], t),
        (vec![step(&[], &[("Pod4", t), ("Own12", f)], 0), step(&[0, 1], &[("Own12", f), ("Pod4", f)], 0)], t),
        // other strategies
        (vec![step(&[], &[("Pod1", t), ("Own8", f), ("Pod2", t)], 1), step(&[1], &[("Pod4", t), ("Own3", f)], 1)], f),
        (vec![step(&[], &[("Own3", f), ("Pod8", t)], 2), step(&[0], &[("Own12", f)], 2)], f),
        (vec![step(&[], &[("Own3", f), ("Pod8", t), ("OwnZ", f)], 3), step(&[1], &[("Own12", f), ("Pod1", t)], 3)], f),
        (vec![step(&[], &[("Pod1", t), ("OwnZ4", f), ("Own8", f)], 1), step(&[], &[("Pod1", t)], 0), step(&[], &[("Own1", f)], 1)], f),
        // four variants
        (vec![step(&[], &[("Own8", f)], 0), step(&[], &[("Pod4", t)], 0), step(&[0], &[("OwnBox", f)], 0), step(&[0, 1], &[], 0)], f),
        // single empty variant
        (vec![step(&[], &[], 0)], f),
        // zero-size data sharing their offset with a sized datum: added in the same step after it,
        // added in a later step, in records made of Copy data only, droppable and plain
        (vec![step(&[], &[("Pod4", t), ("Pod8", t)], 2), step(&[], &[("PodZ", t)], 0)], f),
        (vec![step(&[], &[("Pod4", t)], 0), step(&[], &[("Pod8", t), ("PodZ", t)], 0), step(&[0], &[("Pod2", t)], 0)], f),
        (vec![step(&[], &[("Pod4", t)], 0), step(&[], &[("OwnBox", f), ("OwnZ", f)], 0), step(&[1], &[("OwnZ", f), ("Own24", f)], 0)], f),
        (vec![step(&[], &[("Own3", f), ("Own24", f)], 2), step(&[], &[("OwnZ", f), ("PodZ", t)], 0), step(&[0], &[("OwnZ4", f)], 0)], f),
        (vec![step(&[], &[("Pod4", t), ("Pod4", t), ("Pod8", t)], 0), step(&[0], &[("PodZ", t)], 0), step(&[], &[("PodZ", f)], 1)], f),
        // a removed datum replaced by one of the same size and a stricter alignment
        (vec![step(&[], &[("Pod1", t), ("Own1", f), ("Pod1", t)], 2), step(&[1], &[("Pod2", t)], 0)], f),
        (vec![step(&[], &[("Pod4", t), ("Own8", f), ("Pod4", t)], 2), step(&[1], &[("OwnBox", f)], 0), step(&[], &[("Pod8", t)], 0)], f),
        (vec![step(&[], &[("Own3", f), ("Own1", f), ("Own8", f)], 3), step(&[1, 2], &[("Pod2", f), ("Pod8", t)], 0)], f),
        // a zero-size datum is the most aligned datum of the record
        (vec![step(&[], &[("Own3", f), ("OwnZ4", f)], 0), step(&[0], &[("Pod1", t)], 0)], f),
        (vec![step(&[], &[("Pod1", t), ("Own1", f)], 0), step(&[], &[("OwnZ4", f)], 0), step(&[0], &[("Pod3", f)], 0)], f),
        (vec![step(&[], &[("Pod4", t), ("Pod4", t), ("Pod4", t)], 0), step(&[1], &[("PodZ", f), ("Own3", f)], 0)], f),
    ];
    // ghost data (added and removed before the close)
    let mut g1 = vec![step(&[], &[("Own8", f)], 0), step(&[], &[("Pod4", t)], 0)];
    g1[0].ghost = true;
    z.push((g1, f));
    let mut g2 = vec![step(&[], &[("Pod4", t)], 0), step(&[0], &[("Own3", f)], 0)];
    g2[1].ghost = true;
    z.push((g2, f));
    // a ghost that goes away after the next addition (a higher id is pending at that moment)
    let mut g3 = vec![step(&[], &[("Own8", f), ("Pod4", t), ("OwnBox", f)], 0), step(&[1], &[("Pod8", t), ("Own3", f)], 0)];
    g3[0].ghost = true;
    g3[0].ghost_late = true;
    g3[1].ghost = true;
    g3[1].ghost_late = true;
    z.push((g3, f));
    let mut g4 = vec![step(&[], &[("Pod1", t)], 0), step(&[], &[("OwnZ", f), ("Own12", f)], 1), step(&[0], &[("Pod2", f)], 0)];
    g4[1].ghost = true;
    g4[1].ghost_late = true;
    z.push((g4, f));
    // a zero-size datum placed at the end of an alignment hole (it shares the offset of the datum
    // behind the hole), then a variant whose addition does not fit the hole and goes to the end
    z.push((vec![step(&[], &[("Pod8", t), ("Pod1", t)], 0), step(&[], &[("Pod8", t), ("PodZ", t)], 0), step(&[], &[("Pod8", t)], 0)], f));
    z.push((vec![step(&[], &[("OwnBox", f), ("Own1", f)], 0), step(&[], &[("OwnBox", f), ("OwnZ", f)], 0), step(&[], &[("OwnBox", f)], 0)], f));
    z.push((vec![step(&[], &[("OwnBox", f), ("Pod1", t)], 0), step(&[], &[("OwnBox", f)], 0), step(&[], &[("OwnZ", f)], 0), step(&[], &[("OwnBox", f), ("Pod2", t)], 0)], f));
    z.into_iter()
        .enumerate()
        .map(|(i, (steps, reuse))| DefSpec { name: format!("zoo{}", i), steps, reuse_names: reuse })
        .collect()
}

/// Lifetimes: five variants; a subject datum is born in variant `b` and removed in variant `d`, for
/// every 0 <= b < d <= 4 (so it is carried over by 0 to 3 conversions before the one that removes
/// it); every other step adds one bystander, which stays to the end. The subject is a droppable
/// 8-aligned type, and for the longer lifetimes also a plain type that may stay uninitialised.
pub fn lifetimes() -> Vec<DefSpec> {
    let bystanders = [("Pod4", true), ("Own3", false), ("Pod2", true), ("Own8", false), ("OwnZ", false)];
    let mut out = vec![];
    for (subject, uninit, min_age, tag) in [("OwnBox", false, 1usize, "o"), ("Pod4", true, 3, "p")] {
        for b in 0..4usize {
            for d in (b + 1)..5usize {
                if d - b < min_age {
                    continue;
                }
                let mut steps = vec![];
                for s in 0..5usize {
                    let mut add: Vec<(&str, bool)> = vec![];
                    let mut remove = vec![];
                    if s == b {
                        add.push((subject, uninit));
                    } else if s != d || d % 2 == 1 {
                        add.push(bystanders[s]);
                    }
                    if s == d {
                        // nothing else was removed before: the subject's position among the live data,
                        // sorted by id, is the number of data added before it
                        remove.push(b);
                    }
                    steps.push(step(&remove, &add, 0));
                }
                out.push(DefSpec { name: format!("life{}{}{}", tag, b, d), steps, reuse_names: false });
            }
        }
    }
    out
}

/// Values bigger than 16 bytes whose size is not a multiple of 8 (a store or load done word by
/// word loses their tail): stored by the constructors and by the conversions, next to small data.
pub fn big() -> Vec<DefSpec> {
    let f = false;
    let t = true;
    let z: Vec<Vec<DStep>> = vec![
        vec![step(&[], &[("Own20", f), ("Pod20", t), ("Own33", f)], 0), step(&[0], &[("Pod4", t)], 0)],
        vec![step(&[], &[("Pod8", t), ("Own8", f)], 0), step(&[0, 1], &[("Own20", f)], 0), step(&[], &[("Own33", f), ("Pod20", t)], 1)],
        vec![step(&[], &[("Pod1", t), ("Pod20", t)], 2), step(&[1], &[("Own33", f), ("Pod20", f)], 0)],
    ];
    z.into_iter().enumerate().map(|(i, steps)| DefSpec { name: format!("big{}", i), steps, reuse_names: false }).collect()
}

/// Records that are large in one dimension, which the enumerated sub-families cannot afford:
/// twelve fields in one variant / added in one step (two-digit positions and generic parameter
/// numbers, a mandatory field at position 1 and may-be-uninitialised ones at 10 and 11); every
/// mandatory / may-be-uninitialised pattern of three additions in one step; two groups of adjacent
/// plain fields whose memory order differs from their declaration order.
pub fn wide() -> Vec<DefSpec> {
    let f = false;
    let t = true;
    let twelve: [(&str, bool); 12] =
        [("Pod4", t), ("Own8", f), ("Pod2", t), ("Own3", f), ("Pod1", t), ("Pod8", t), ("OwnBox", f), ("Pod4", f), ("Pod2", f), ("Own1", f), ("Pod4", t), ("Pod1", t)];
    let mut z: Vec<Vec<DStep>> = vec![
        vec![step(&[], &twelve, 0), step(&[1, 10], &[("Pod4", t)], 0)],
        vec![step(&[], &[("Pod1", t)], 0), step(&[], &twelve, 0), step(&[2, 4, 7], &[("Own3", f), ("Pod2", t), ("Own8", f)], 0)],
        // two groups of adjacent plain data; the group lower in memory is the younger one
        vec![step(&[], &[("OwnBox", f), ("OwnBox", f), ("Pod4", t), ("Pod4", t)], 0), step(&[0], &[("Pod4", t), ("Pod4", t)], 0)],
        vec![step(&[], &[("Own24", f), ("Pod2", t), ("Pod2", t), ("Own8", f)], 1), step(&[0], &[("Pod8", t), ("Pod8", t), ("Pod1", t)], 0), step(&[2], &[], 0)],
    ];
    // a cancelled addition (a 4-aligned type) that is more aligned than every datum of every variant:
    // it still counts for the alignment of all the record types
    {
        let mut g = vec![step(&[], &[("Pod1", t), ("Pod2", t), ("Own3", f)], 0), step(&[0], &[("Own1", f)], 0)];
        g[0].ghost = true;
        z.push(g);
    }
    // every pattern of three additions in one step (u = may stay uninitialised, m = mandatory),
    // the first of them re-using the bytes of a removed datum
    for p in 0..8u8 {
        let kinds: Vec<(&str, bool)> = (0..3)
            .map(|i| match (p >> i & 1 == 1, i) {
                (true, 0) => ("Pod4", t),
                (true, 1) => ("Pod2", t),
                (true, _) => ("Pod8", t),
                (false, 0) => ("Own3", f),
                (false, 1) => ("Own8", f),
                (false, _) => ("Pod4", f),
            })
            .collect();
        z.push(vec![step(&[], &[("Pod4", t), ("Own3", f)], 0), step(&[0], &kinds, 0)]);
    }
    z.into_iter().enumerate().map(|(i, steps)| DefSpec { name: format!("wide{}", i), steps, reuse_names: false }).collect()
}

/// The reduced family interpreted by Miri: every instrumented type, re-used bytes, a re-used
/// name, zero-size data, odd sizes, an over-aligned type, a ghost, three strategies.
pub fn miri_family() -> Vec<DefSpec> {
    let keep = [1usize, 2, 3, 8, 13, 14, 16, 18, 20, 22, 26, 27, 28, 31, 32, 35];
    let z = zoo();
    let mut v: Vec<DefSpec> = keep.iter().filter_map(|i| z.get(*i).cloned()).collect();
    v.push(z[z.len() - 4].clone()); // first ghost definition
    v.push(z[z.len() - 2].clone()); // ghost removed late
    v.push(big().remove(1));
    v
}

pub fn family(tier: &str) -> Vec<DefSpec> {
    if tier == "miri" {
        return miri_family();
    }
    let mut v = zoo();
    v.extend(lifetimes());
    v.extend(big());
    v.extend(wide());
    // a 4-aligned plain type that may stay uninitialised, an 8-aligned droppable type (padding
    // gaps, hence zero-size data sharing an offset with a sized datum) and a droppable zero-size type
    let a3 = [(type_index("Pod4"), true), (type_index("OwnBox"), false), (type_index("OwnZ"), false)];
    let b3 = [(type_index("Pod4"), true), (type_index("Pod8"), true), (type_index("Own3"), false)];
    match tier {
        "thorough" => {
            v.extend(histories_mixed(&b3, &[2, 1], &[&[2], &[0]], "h3m"));
            v.extend(histories_mixed(&b3, &[2, 2], &[&[1], &[0]], "h3n"));
            // about 1 600 definitions (four builds of them must fit the disk)
            let a4 = [(type_index("Pod4"), true), (type_index("OwnBox"), false), (type_index("OwnZ"), false), (type_index("PodZ"), true)];
            let a5 = [
                (type_index("Pod4"), true),
                (type_index("OwnBox"), false),
                (type_index("OwnZ"), false),
                (type_index("Own3"), false),
                (type_index("Pod8"), true),
            ];
            v.extend(histories(&a3, &[2, 1], &[0], "h3q"));
            v.extend(histories(&a3, &[1, 2], &[0], "h3r"));
            v.extend(histories(&a4, &[2, 1], &[0], "h4x"));
            v.extend(histories(&a5, &[1, 1, 1], &[0], "h5z"));
            v.extend(histories(&a3, &[2, 1], &[1], "h3b"));
            v.extend(histories(&a3, &[1, 1, 1], &[2], "h3a"));
        }
        _ => {
            v.extend(histories(&a3, &[2, 1], &[0], "h3q"));
            v.extend(histories(&a3, &[1, 2], &[0], "h3r"));
            // the converse mix - two plain types of different alignment that may stay uninitialised
            // and a small unaligned droppable type - first closed without filling the padding
            // (append_data), then with `simple`, which packs later data into that padding
            v.extend(histories_mixed(&b3, &[2, 1], &[&[2], &[0]], "h3m"));
        }
    }
    v
}
