fn main(){ println!("quick {} thorough {} miri {}", defgen::family("quick").len(), defgen::family("thorough").len(), defgen::family("miri").len()); }
