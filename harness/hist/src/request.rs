use vcommon::{Args, Value};
pub fn main(_args: &Args, _threads: usize) -> ! { vcommon::machinery_error("not built yet") }
pub fn replay(_prop: &str, _case: &Value) -> i32 { 2 }
