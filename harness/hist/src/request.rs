//! Engine A, request mode (C12): breadth-first exploration of single builder requests — valid and
//! invalid — on the real generic and native builders, in lock-step with a boring reference model.

use std::{
    collections::{BTreeMap, BTreeSet, HashMap, HashSet},
    panic::{catch_unwind, AssertUnwindSafe},
    sync::{
        atomic::{AtomicU64, AtomicUsize, Ordering},
        Mutex,
    },
};

use truc::record::{
    definition::{
        builder::{
            generic::{variant as gvariant, GenericRecordDefinitionBuilder},
            native::{variant, NativeRecordDefinitionBuilder},
        },
        DatumId, RecordVariantId,
    },
    type_resolver::HostTypeResolver,
};
use vcommon::{json, Args, Report, Tier, Value, Violation};

const NAMES: [&str; 3] = ["a", "b", "c"];
const NEVER: u8 = 255;

#[derive(Clone, Copy, PartialEq, Eq, Hash, Debug, PartialOrd, Ord)]
pub enum Req {
    Add(u8),
    /// handle = index in issue order; NEVER = an id that was never issued
    Remove(u8),
    Close(u8),
}

impl Req {
    fn to_json(self) -> Value {
        match self {
            Req::Add(n) => json!({"add": NAMES[n as usize]}),
            Req::Remove(NEVER) => json!({"remove": "never-issued-id"}),
            Req::Remove(h) => json!({"remove_handle": h}),
            Req::Close(s) => json!({"close_strategy": s}),
        }
    }
    fn from_json(v: &Value) -> Req {
        if let Some(n) = v["add"].as_str() {
            Req::Add(NAMES.iter().position(|x| *x == n).unwrap() as u8)
        } else if v["remove"].is_string() {
            Req::Remove(NEVER)
        } else if let Some(h) = v["remove_handle"].as_u64() {
            Req::Remove(h as u8)
        } else {
            Req::Close(v["close_strategy"].as_u64().unwrap_or(0) as u8)
        }
    }
}

// ---------------------------------------------------------------------------------------
// reference model (from the property statement)
// ---------------------------------------------------------------------------------------

#[derive(Clone, Default, Debug, PartialEq, Eq, Hash)]
struct Model {
    variants: Vec<BTreeSet<u8>>,
    pending_add: Vec<u8>,
    pending_remove: Vec<u8>,
    /// name index of every issued handle
    names: Vec<u8>,
}

#[derive(Debug, PartialEq, Eq, Clone, Copy)]
enum Verdict {
    Accepted,
    Rejected,
    NewVariant,
    NoVariant,
}

impl Model {
    fn current(&self) -> BTreeSet<u8> {
        let mut cur: BTreeSet<u8> = self.variants.last().cloned().unwrap_or_default();
        for r in &self.pending_remove {
            cur.remove(r);
        }
        for a in &self.pending_add {
            cur.insert(*a);
        }
        cur
    }
    fn by_name(&self, set: &BTreeSet<u8>, name: u8) -> Option<u8> {
        set.iter().copied().find(|h| self.names[*h as usize] == name)
    }
    fn step(&mut self, r: Req) -> Verdict {
        match r {
            Req::Add(n) => {
                if self.by_name(&self.current(), n).is_some() {
                    Verdict::Rejected
                } else {
                    let h = self.names.len() as u8;
                    self.names.push(n);
                    self.pending_add.push(h);
                    Verdict::Accepted
                }
            }
            Req::Remove(h) => {
                if h == NEVER || (h as usize) >= self.names.len() {
                    return Verdict::Rejected;
                }
                let in_last = self.variants.last().map_or(false, |v| v.contains(&h));
                if in_last {
                    if self.pending_remove.contains(&h) {
                        Verdict::Rejected
                    } else {
                        self.pending_remove.push(h);
                        Verdict::Accepted
                    }
                } else if let Some(p) = self.pending_add.iter().position(|x| *x == h) {
                    self.pending_add.remove(p);
                    Verdict::Accepted
                } else {
                    Verdict::Rejected
                }
            }
            Req::Close(_) => {
                // the first close creates the (possibly empty) first variant
                if self.variants.is_empty() || !self.pending_add.is_empty() || !self.pending_remove.is_empty() {
                    let v = self.current();
                    self.variants.push(v);
                    self.pending_add.clear();
                    self.pending_remove.clear();
                    Verdict::NewVariant
                } else {
                    Verdict::NoVariant
                }
            }
        }
    }
    fn has_pending(&self) -> bool {
        !self.pending_add.is_empty() || !self.pending_remove.is_empty()
    }
}

// ---------------------------------------------------------------------------------------
// the two real builders behind one interface
// ---------------------------------------------------------------------------------------

trait Real {
    fn add(&mut self, name: u8) -> Result<DatumId, String>;
    fn remove(&mut self, id: DatumId) -> Result<(), String>;
    fn close(&mut self, strat: u8) -> RecordVariantId;
    fn current_data(&self) -> Vec<DatumId>;
    fn current_by_name(&self, name: &str) -> Option<DatumId>;
    fn variant_by_name(&self, v: RecordVariantId, name: &str) -> Option<DatumId>;
    fn variant_data(&self, v: RecordVariantId) -> Option<Vec<DatumId>>;
    fn datum_name(&self, id: DatumId) -> Option<String>;
    /// build(): Err = panicked; Ok = (variants as lists, name of every datum)
    fn build(self: Box<Self>) -> Result<(Vec<Vec<DatumId>>, BTreeMap<DatumId, String>), String>;
}

struct Native(NativeRecordDefinitionBuilder<HostTypeResolver>);

impl Real for Native {
    fn add(&mut self, name: u8) -> Result<DatumId, String> {
        match name {
            0 => self.0.add_datum::<u32, _>("a"),
            1 => self.0.add_datum_allow_uninit::<u8, _>("b"),
            _ => self.0.add_datum::<[u8; 3], _>("c"),
        }
    }
    fn remove(&mut self, id: DatumId) -> Result<(), String> {
        self.0.remove_datum(id)
    }
    fn close(&mut self, strat: u8) -> RecordVariantId {
        if strat == 0 {
            self.0.close_record_variant()
        } else {
            self.0.close_record_variant_with(variant::basic)
        }
    }
    fn current_data(&self) -> Vec<DatumId> {
        self.0.get_current_data().collect()
    }
    fn current_by_name(&self, name: &str) -> Option<DatumId> {
        self.0.get_current_datum_definition_by_name(name).map(|d| d.id())
    }
    fn variant_by_name(&self, v: RecordVariantId, name: &str) -> Option<DatumId> {
        self.0.get_variant_datum_definition_by_name(v, name).map(|d| d.id())
    }
    fn variant_data(&self, v: RecordVariantId) -> Option<Vec<DatumId>> {
        catch_unwind(AssertUnwindSafe(|| self.0[v].data().collect())).ok()
    }
    fn datum_name(&self, id: DatumId) -> Option<String> {
        catch_unwind(AssertUnwindSafe(|| self.0[id].name().to_owned())).ok()
    }
    fn build(self: Box<Self>) -> Result<(Vec<Vec<DatumId>>, BTreeMap<DatumId, String>), String> {
        catch_unwind(AssertUnwindSafe(move || {
            let def = self.0.build();
            (
                def.variants().map(|v| v.data().collect()).collect(),
                def.datum_definitions().map(|d| (d.id(), d.name().to_owned())).collect(),
            )
        }))
        .map_err(|p| vcommon::panic_message(&*p))
    }
}

struct Generic(GenericRecordDefinitionBuilder<u8>);

impl Real for Generic {
    fn add(&mut self, name: u8) -> Result<DatumId, String> {
        self.0.add_datum(NAMES[name as usize], name)
    }
    fn remove(&mut self, id: DatumId) -> Result<(), String> {
        self.0.remove_datum(id)
    }
    fn close(&mut self, strat: u8) -> RecordVariantId {
        if strat == 0 {
            self.0.close_record_variant_with(gvariant::append_data)
        } else {
            self.0.close_record_variant_with(gvariant::append_data_reverse)
        }
    }
    fn current_data(&self) -> Vec<DatumId> {
        self.0.get_current_data().collect()
    }
    fn current_by_name(&self, name: &str) -> Option<DatumId> {
        self.0.get_current_datum_definition_by_name(name).map(|d| d.id())
    }
    fn variant_by_name(&self, v: RecordVariantId, name: &str) -> Option<DatumId> {
        self.0.get_variant_datum_definition_by_name(v, name).map(|d| d.id())
    }
    fn variant_data(&self, v: RecordVariantId) -> Option<Vec<DatumId>> {
        self.0.get_variant(v).map(|x| x.data().collect())
    }
    fn datum_name(&self, id: DatumId) -> Option<String> {
        self.0.get_datum_definition(id).map(|d| d.name().to_owned())
    }
    fn build(self: Box<Self>) -> Result<(Vec<Vec<DatumId>>, BTreeMap<DatumId, String>), String> {
        catch_unwind(AssertUnwindSafe(move || {
            let def = self.0.build();
            (
                def.variants().map(|v| v.data().collect()).collect(),
                def.datum_definitions().map(|d| (d.id(), d.name().to_owned())).collect(),
            )
        }))
        .map_err(|p| vcommon::panic_message(&*p))
    }
}

fn fresh(kind: u8) -> Box<dyn Real> {
    if kind == 0 {
        Box::new(Native(NativeRecordDefinitionBuilder::new(HostTypeResolver)))
    } else {
        Box::new(Generic(GenericRecordDefinitionBuilder::new()))
    }
}

const KINDS: [&str; 2] = ["native", "generic"];

// ---------------------------------------------------------------------------------------
// lock-step execution
// ---------------------------------------------------------------------------------------

struct Run {
    real: Box<dyn Real>,
    model: Model,
    ids: Vec<DatumId>,
    vids: Vec<RecordVariantId>,
}

fn case_json(kind: u8, h: &[Req]) -> Value {
    json!({"space": "request-history", "builder": KINDS[kind as usize], "requests": h.iter().map(|r| r.to_json()).collect::<Vec<_>>()})
}

/// Compares every observation of the real builder with the model. Returns a violation text.
fn compare(run: &Run) -> Option<(String, String)> {
    let m = &run.model;
    let id_of = |h: u8| run.ids[h as usize];
    let handle_of = |id: DatumId| run.ids.iter().position(|x| *x == id).map(|p| p as u8);
    // current data
    let got: Vec<DatumId> = run.real.current_data();
    let got_set: BTreeSet<DatumId> = got.iter().copied().collect();
    let want_set: BTreeSet<DatumId> = m.current().into_iter().map(id_of).collect();
    if got_set != want_set || got_set.len() != got.len() {
        return Some(("current-data".into(), format!("get_current_data() = {:?}, the model's current variant is {:?}", got, want_set)));
    }
    // names unique within the current variant
    let mut seen = BTreeSet::new();
    for id in &got {
        let n = run.real.datum_name(*id);
        if !seen.insert(n.clone()) {
            return Some(("duplicate-name".into(), format!("name {:?} appears twice in the current variant", n)));
        }
    }
    for (ni, name) in NAMES.iter().enumerate() {
        let want = m.by_name(&m.current(), ni as u8).map(id_of);
        let got = run.real.current_by_name(name);
        if got != want {
            return Some(("current-by-name".into(), format!("lookup of {:?} in the current variant gives {:?}, expected {:?}", name, got, want)));
        }
    }
    if run.vids.len() != m.variants.len() {
        return Some(("variant-count".into(), format!("{} variants were created, the model has {}", run.vids.len(), m.variants.len())));
    }
    let distinct: BTreeSet<_> = run.vids.iter().collect();
    if distinct.len() != run.vids.len() {
        return Some(("variant-id-reused".into(), format!("variant ids {:?} are not distinct", run.vids)));
    }
    for (vi, vid) in run.vids.iter().enumerate() {
        let data = match run.real.variant_data(*vid) {
            Some(d) => d,
            None => return Some(("variant-missing".into(), format!("closed variant {} cannot be looked up", vid))),
        };
        let got: BTreeSet<DatumId> = data.iter().copied().collect();
        let want: BTreeSet<DatumId> = m.variants[vi].iter().map(|h| id_of(*h)).collect();
        if got != want || got.len() != data.len() {
            return Some(("variant-membership".into(), format!("variant {} holds {:?}, expected previous - removed + added = {:?}", vid, data, want)));
        }
        for (ni, name) in NAMES.iter().enumerate() {
            let want = m.by_name(&m.variants[vi], ni as u8).map(id_of);
            let got = run.real.variant_by_name(*vid, name);
            if got != want {
                return Some(("variant-by-name".into(), format!("lookup of {:?} in variant {} gives {:?}, expected {:?}", name, vid, got, want)));
            }
        }
        if data.iter().any(|d| handle_of(*d).is_none()) {
            return Some(("unknown-datum".into(), format!("variant {} holds a datum id that was never issued: {:?}", vid, data)));
        }
    }
    // lookups by id: every issued datum keeps its name, an id that was never issued finds nothing
    for (h, id) in run.ids.iter().enumerate() {
        let want = NAMES[m.names[h] as usize];
        let got = run.real.datum_name(*id);
        if got.as_deref() != Some(want) {
            return Some(("lookup-by-id".into(), format!("datum {} was issued for name {:?} and is now named {:?}", id, want, got)));
        }
    }
    let beyond = DatumId::from(run.ids.len());
    if !run.ids.contains(&beyond) && run.real.datum_name(beyond).is_some() {
        return Some(("lookup-by-id".into(), format!("datum id {} was never issued but can be looked up", beyond)));
    }
    // no variant beyond the created ones
    let next = RecordVariantId::from(run.vids.len());
    if !run.vids.contains(&next) && run.real.variant_data(next).is_some() {
        return Some(("extra-variant".into(), format!("a variant {} exists that no close reported", next)));
    }
    None
}

/// Applies one request to both sides. Returns a violation (key suffix, text) if they disagree.
fn apply(run: &mut Run, r: Req) -> Option<(String, String)> {
    let verdict = run.model.step(r);
    match r {
        Req::Add(n) => {
            let res = run.real.add(n);
            match (res, verdict) {
                (Ok(id), Verdict::Accepted) => {
                    if run.ids.contains(&id) {
                        return Some(("id-reused".into(), format!("datum id {} was issued twice", id)));
                    }
                    run.ids.push(id);
                }
                (Err(_), Verdict::Rejected) => {}
                (Ok(id), _) => {
                    return Some(("invalid-add-accepted".into(), format!("adding a second {:?} to the current variant was accepted (id {})", NAMES[n as usize], id)));
                }
                (Err(e), _) => {
                    return Some(("valid-add-rejected".into(), format!("adding {:?} was rejected although the name is free: {}", NAMES[n as usize], e)));
                }
            }
        }
        Req::Remove(h) => {
            let id = if h == NEVER || (h as usize) >= run.ids.len() {
                // an id that was never issued
                DatumId::from(run.ids.len() + 7)
            } else {
                run.ids[h as usize]
            };
            let res = run.real.remove(id);
            match (res, verdict) {
                (Ok(()), Verdict::Accepted) | (Err(_), Verdict::Rejected) => {}
                (Ok(()), _) => {
                    return Some(("invalid-remove-accepted".into(), format!("removing datum {} (absent, stale, unknown or already removed) was accepted", id)));
                }
                (Err(e), _) => {
                    return Some(("valid-remove-rejected".into(), format!("removing live datum {} was rejected: {}", id, e)));
                }
            }
        }
        Req::Close(s) => {
            let first_and_empty = run.model.variants.len() == 1 && run.vids.is_empty() && run.model.variants[0].is_empty();
            let vid = match catch_unwind(AssertUnwindSafe(|| run.real.close(s))) {
                Ok(v) => v,
                Err(p) => return Some(("close-panicked".into(), vcommon::panic_message(&*p))),
            };
            // the very first close with nothing pending: the statement allows "no new variant",
            // the implementation creates an empty first variant; the model follows what happened
            if first_and_empty && verdict == Verdict::NewVariant && run.real.variant_data(vid).is_none() {
                run.model.variants.clear();
                return compare(run);
            }
            match verdict {
                Verdict::NewVariant => {
                    if run.vids.contains(&vid) {
                        return Some(("close-created-no-variant".into(), format!("a close with pending changes returned the existing variant {}", vid)));
                    }
                    run.vids.push(vid);
                }
                _ => {
                    // no pending change: no new variant; the returned id is not constrained
                    // beyond being an existing one (checked by compare through variant count)
                    if !run.vids.contains(&vid) {
                        // a new id means a new variant was created
                        if run.real.variant_data(vid).is_some() {
                            return Some(("noop-close-created-variant".into(), format!("closing with no pending change created variant {}", vid)));
                        }
                    }
                }
            }
        }
    }
    compare(run)
}

fn replay_history(kind: u8, h: &[Req]) -> (Run, Option<(usize, String, String)>) {
    let mut run = Run {
        real: fresh(kind),
        model: Model::default(),
        ids: vec![],
        vids: vec![],
    };
    for (i, r) in h.iter().enumerate() {
        if let Some((k, t)) = apply(&mut run, *r) {
            return (run, Some((i, k, t)));
        }
    }
    (run, None)
}

fn check_build(kind: u8, h: &[Req]) -> Option<(String, String)> {
    let (run, bad) = replay_history(kind, h);
    if bad.is_some() {
        return None;
    }
    let pending = run.model.has_pending();
    let model = run.model.clone();
    let ids = run.ids.clone();
    match (run.real.build(), pending) {
        (Ok(_), true) => Some(("build-with-pending-accepted".into(), "build() succeeded although changes were not closed".into())),
        (Err(e), false) => Some(("build-panicked".into(), format!("build() panicked on a builder without pending changes: {}", e))),
        (Err(_), true) => None,
        (Ok((variants, names)), false) => {
            if variants.len() != model.variants.len() {
                return Some(("built-variant-count".into(), format!("built definition has {} variants, expected {}", variants.len(), model.variants.len())));
            }
            for (vi, v) in variants.iter().enumerate() {
                let got: BTreeSet<DatumId> = v.iter().copied().collect();
                let want: BTreeSet<DatumId> = model.variants[vi].iter().map(|h| ids[*h as usize]).collect();
                if got != want || got.len() != v.len() {
                    return Some(("built-variant-membership".into(), format!("built variant {} holds {:?}, expected {:?}", vi, v, want)));
                }
            }
            for (h, id) in ids.iter().enumerate() {
                if names.get(id).map(String::as_str) != Some(NAMES[model.names[h] as usize]) {
                    return Some(("built-datum-name".into(), format!("datum {} is named {:?} in the built definition", id, names.get(id))));
                }
            }
            None
        }
    }
}

type Key = Vec<u8>;

fn key_of(run: &Run) -> Key {
    // the model state, with the real list order of every variant (finer than the model's sets)
    let mut k = vec![];
    for vid in &run.vids {
        k.push(0xFE);
        for id in run.real.variant_data(*vid).unwrap_or_default() {
            k.push(run.ids.iter().position(|x| *x == id).map(|p| p as u8).unwrap_or(0xFD));
        }
    }
    k.push(0xFF);
    k.extend(&run.model.pending_add);
    k.push(0xFF);
    k.extend(&run.model.pending_remove);
    k.push(0xFF);
    k.extend(&run.model.names);
    k
}

pub struct RequestRun {
    /// histories executed beyond a refused request (see `explore`)
    pub followups: u64,
    pub states: u64,
    pub transitions: u64,
    pub levels: Vec<Value>,
    pub violations: BTreeMap<String, Violation>,
    pub violating: u64,
    pub samples: Vec<Value>,
}

fn requests_after(hist: &[Req]) -> Vec<Req> {
    let issued = hist.iter().filter(|r| matches!(r, Req::Add(_))).count();
    let mut reqs: Vec<Req> = (0..3).map(Req::Add).collect();
    // handles: at most `issued` were really issued (rejected adds issue nothing)
    for h in 0..issued.min(250) {
        reqs.push(Req::Remove(h as u8));
    }
    reqs.push(Req::Remove(NEVER));
    reqs.push(Req::Close(0));
    reqs.push(Req::Close(1));
    reqs
}

/// A refused request (or a close with nothing pending) leaves the model where it was, so the
/// search merges the state it leads to with its predecessor and would never look beyond it. The
/// statement says the *builder* is left as it was: every continuation of up to `len` further
/// requests is therefore executed after the refused one as well, compared with the model (which
/// ignores the refused request) after every request. Returns the first disagreement.
fn follow_refused(kind: u8, h: &[Req], len: usize, count: &AtomicU64) -> Option<(Vec<Req>, String, String)> {
    if len == 0 {
        return None;
    }
    for w in requests_after(h) {
        let mut h2 = h.to_vec();
        h2.push(w);
        let (run, bad) = replay_history(kind, &h2);
        if let Req::Remove(x) = w {
            if x != NEVER && (x as usize) >= run.ids.len() && bad.is_none() {
                continue;
            }
        }
        count.fetch_add(1, Ordering::Relaxed);
        if let Some((k, t)) = bad.map(|(_, k, t)| (k, t)).or_else(|| check_build(kind, &h2)) {
            return Some((h2, k, t));
        }
        if let Some(x) = follow_refused(kind, &h2, len - 1, count) {
            return Some(x);
        }
    }
    None
}

fn explore(kind: u8, depth: usize, follow: (usize, usize), threads: usize) -> RequestRun {
    let followups = AtomicU64::new(0);
    let mut out = RequestRun { followups: 0, states: 1, transitions: 0, levels: vec![], violations: BTreeMap::new(), violating: 0, samples: vec![] };
    let seen: Mutex<HashSet<Key>> = Mutex::new(HashSet::new());
    let mut frontier: Vec<Vec<Req>> = vec![vec![]];
    for level in 0..depth {
        let level_new: Mutex<HashMap<Key, Vec<Req>>> = Mutex::new(HashMap::new());
        let viol: Mutex<BTreeMap<String, Violation>> = Mutex::new(BTreeMap::new());
        let cursor = AtomicUsize::new(0);
        let transitions = AtomicU64::new(0);
        let violating = AtomicU64::new(0);
        std::thread::scope(|s| {
            for _ in 0..threads.max(1) {
                s.spawn(|| loop {
                    let i = cursor.fetch_add(1, Ordering::Relaxed);
                    if i >= frontier.len() {
                        break;
                    }
                    let hist = &frontier[i];
                    let reqs = requests_after(hist);
                    let parent_model = if level < follow.0 { Some(replay_history(kind, hist).0.model) } else { None };
                    for r in reqs {
                        let mut h2 = hist.clone();
                        h2.push(r);
                        let (run, bad) = replay_history(kind, &h2);
                        if let Req::Remove(h) = r {
                            if h != NEVER && (h as usize) >= run.ids.len() && bad.is_none() {
                                // same as the never-issued id: already covered
                                continue;
                            }
                        }
                        transitions.fetch_add(1, Ordering::Relaxed);
                        let bad = bad
                            .map(|(_, k, t)| (k, t))
                            .or_else(|| check_build(kind, &h2));
                        if let Some((k, t)) = bad {
                            violating.fetch_add(1, Ordering::Relaxed);
                            let key = format!("C12/{}/{}", k, KINDS[kind as usize]);
                            let mut g = viol.lock().unwrap();
                            g.entry(key.clone()).or_insert_with(|| Violation::new(key, format!("after {:?}: {}", h2, t), case_json(kind, &h2)));
                            continue;
                        }
                        if parent_model.as_ref() == Some(&run.model) {
                            // refused (or a close with nothing pending): look beyond it
                            if let Some((h3, k, t)) = follow_refused(kind, &h2, follow.1, &followups) {
                                violating.fetch_add(1, Ordering::Relaxed);
                                let key = format!("C12/after-refused-request/{}/{}", k, KINDS[kind as usize]);
                                let mut g = viol.lock().unwrap();
                                g.entry(key.clone()).or_insert_with(|| Violation::new(key, format!("after {:?} (request #{} was refused and must leave no trace): {}", h3, h2.len(), t), case_json(kind, &h3)));
                                continue;
                            }
                        }
                        let key = key_of(&run);
                        if seen.lock().unwrap().contains(&key) {
                            continue;
                        }
                        let mut g = level_new.lock().unwrap();
                        match g.get_mut(&key) {
                            None => {
                                g.insert(key, h2);
                            }
                            Some(old) => {
                                if h2 < *old {
                                    *old = h2;
                                }
                            }
                        }
                    }
                });
            }
        });
        let new = level_new.into_inner().unwrap();
        let t = transitions.load(Ordering::Relaxed);
        out.transitions += t;
        out.states += new.len() as u64;
        out.violating += violating.load(Ordering::Relaxed);
        out.levels.push(json!({"depth": level + 1, "frontier": frontier.len(), "transitions": t, "new_states": new.len(), "violating": violating.load(Ordering::Relaxed)}));
        for (k, v) in viol.into_inner().unwrap() {
            out.violations.entry(k).or_insert(v);
        }
        let mut s = seen.lock().unwrap();
        frontier = Vec::with_capacity(new.len());
        for (k, h) in new {
            s.insert(k);
            frontier.push(h);
        }
        frontier.sort();
        if let Some(h) = frontier.get(frontier.len() / 3) {
            if out.samples.len() < 3 {
                out.samples.push(case_json(kind, h));
            }
        }
    }
    out.followups = followups.load(Ordering::Relaxed);
    out
}

pub fn main(args: &Args, threads: usize) -> ! {
    let depth = if args.tier == Tier::Quick { 9 } else { 12 };
    let mut report = Report::new("hist", args, "model_checking");
    let mut states = 0;
    let mut transitions = 0;
    let mut per = vec![];
    let mut samples = vec![];
    // (states up to this depth, continuations of this length) explored beyond every refused request
    let follow = match (std::env::var("VERIF_C12_FOLLOW").ok(), args.tier) {
        (Some(v), _) => {
            let mut it = v.split(',').map(|x| x.parse::<usize>().unwrap_or(0));
            (it.next().unwrap_or(0), it.next().unwrap_or(0))
        }
        (None, Tier::Quick) => (6, 2),
        (None, Tier::Thorough) => (7, 3),
    };
    for kind in 0..2u8 {
        let r = explore(kind, depth, follow, threads);
        eprintln!("C12 request mode, {} builder: depth {} states {} transitions {} beyond-refused {} violating {}", KINDS[kind as usize], depth, r.states, r.transitions, r.followups, r.violating);
        states += r.states;
        transitions += r.transitions + r.followups;
        per.push(json!({"builder": KINDS[kind as usize], "depth": depth, "states": r.states, "transitions": r.transitions, "beyond_refused_requests": {"from_states_up_to_depth": follow.0, "continuation_length": follow.1, "histories_executed": r.followups}, "violating_transitions": r.violating, "levels": r.levels}));
        samples.extend(r.samples);
        report.violations_total += r.violating;
        for (_, v) in r.violations {
            report.violations.push(v);
        }
    }
    // membership half in layout mode, where the shapes (hence the strategies' work) vary
    let l = crate::run_layout("C12L", args.tier, threads, Some(std::time::Duration::from_secs(if args.tier == Tier::Quick { 600 } else { 1200 })));
    report.violations_total += l.violating_transitions;
    for v in l.violations {
        report.violations.push(v);
    }
    samples.extend(l.samples.into_iter().take(2));
    report
        .cov("states", states + l.states)
        .cov("transitions", transitions + l.transitions)
        .cov("traces_validated_against_impl", transitions + l.transitions)
        .cov("samples", samples)
        .cov("exhaustive", l.complete)
        .cov("request_mode", per)
        .cov("layout_mode_membership", json!({"states": l.states, "transitions": l.transitions, "complete": l.complete, "passes": l.passes}))
        .cov("explanation", "request mode: BFS over single requests {add a|b|c, remove <every issued handle | never-issued id>, close with two strategies}, every request applied to the real builder and to the reference model, all observations (current data, by-name lookups in the current and in every closed variant, variant count and membership, build()) compared after every request; key = real variant lists + ordered pending lists + names; a refused request leaves the model (hence the key) unchanged, so every continuation of bounded length is additionally executed after every refused request of every state up to a bounded depth (beyond_refused_requests). layout mode: membership oracle on every whole-variant transition of the layout exploration");
    report.assume("the first close of a builder creates the (possibly empty) first variant; the id returned by a no-op close is not constrained");
    report.assume("three names, two closing strategies per builder in request mode");
    std::process::exit(report.finish());
}

pub fn replay(prop: &str, case: &Value) -> i32 {
    let kind = if case["builder"].as_str() == Some("generic") { 1 } else { 0 };
    let h: Vec<Req> = case["requests"].as_array().map(|a| a.iter().map(Req::from_json).collect()).unwrap_or_default();
    let (_, bad) = replay_history(kind, &h);
    let bad = bad.map(|(_, k, t)| (k, t)).or_else(|| check_build(kind, &h));
    match bad {
        Some((k, t)) => {
            println!("REPLAY-VIOLATION property={} key=C12/{}/{} :: {}", prop, k, KINDS[kind as usize], t);
            1
        }
        None => {
            println!("REPLAY-OK property={}", prop);
            0
        }
    }
}
