//! Engine A, layout mode: breadth-first explicit-state exploration of the real native builder.
//!
//! State = the builder reached by a history (rebuilt by replay, builders are not `Clone`);
//! canonical key = the list, in list order, of (offset, size, align, may-be-uninit[, id rank]) of
//! the last closed variant — exactly what the shipped strategies read. Every transition is
//! executed on the real code and judged by the oracles of the selected property before its
//! target state is merged.

use std::{
    collections::{BTreeMap, HashMap, HashSet},
    sync::{
        atomic::{AtomicU64, AtomicUsize, Ordering},
        Mutex,
    },
    time::{Duration, Instant},
};

use vcommon::{json, Value, Violation};

use crate::exec::*;

#[derive(Clone, Debug)]
pub struct Bounds {
    /// number of variant steps
    pub variants: usize,
    /// max additions in the first step / in later steps
    pub adds_first: usize,
    pub adds_later: usize,
    /// max removals per step
    pub removals: usize,
    /// narrow-and-deep passes: max additions / removals for each step (overrides the three above)
    pub adds_by_level: Option<Vec<usize>>,
    pub removals_by_level: Option<Vec<usize>>,
    pub shapes: Vec<Shape>,
    pub strategies: Vec<u8>,
    pub ghosts: bool,
    /// also enumerate the ghost removed after the first addition
    pub ghosts_late: bool,
    pub with_ranks: bool,
    pub naming: Naming,
    /// property on whose behalf the exploration runs (key prefix of a panic while observing)
    pub prop: String,
}

impl Bounds {
    pub fn describe(&self) -> Value {
        json!({
            "variants": self.variants, "adds_first_variant": self.adds_first, "adds_later_variants": self.adds_later,
            "removals_per_step": self.removals,
            "additions_by_step": self.adds_by_level, "removals_by_step": self.removals_by_level,
            "shapes_size_align": self.shapes.iter().map(Shape::to_json).collect::<Vec<_>>(),
            "strategies": self.strategies.iter().map(|s| STRATEGIES[*s as usize]).collect::<Vec<_>>(),
            "ghost_datum_option": self.ghosts, "ghost_removed_late_option": self.ghosts && self.ghosts_late, "key_includes_id_ranks": self.with_ranks,
            "names": format!("{:?}", self.naming),
        })
    }
}

pub type Key = Box<[u8]>;

/// `ghosts`: ids that were issued but belong to no variant (only passed by explorations with the
/// ghost option): how many of them precede each live datum is part of the state, because the
/// built definition then has holes in its id sequence exactly there.
pub fn key_of(list: &[DatumObs], with_ranks: bool, ghosts: Option<&[truc::record::definition::DatumId]>) -> Key {
    let mut k = Vec::with_capacity(list.len() * 7 + 1);
    let mut ids: Vec<_> = list.iter().map(|d| d.id).collect();
    ids.sort();
    for d in list {
        k.extend_from_slice(&(d.offset as u16).to_le_bytes());
        k.extend_from_slice(&(d.size as u16).to_le_bytes());
        k.push(d.align.trailing_zeros() as u8 | if d.uninit { 0x80 } else { 0 });
        if with_ranks {
            k.push(ids.iter().position(|i| *i == d.id).unwrap() as u8);
        }
        if let Some(g) = ghosts {
            k.push(g.iter().filter(|x| **x < d.id).count().min(3) as u8);
        }
    }
    if let Some(g) = ghosts {
        // trailing marker: total number of orphan ids (capped)
        k.push(0xF0 | g.len().min(3) as u8);
    }
    k.into_boxed_slice()
}

fn subsets(m: usize, max: usize) -> Vec<Vec<u8>> {
    let mut out = vec![vec![]];
    fn rec(start: usize, m: usize, left: usize, cur: &mut Vec<u8>, out: &mut Vec<Vec<u8>>) {
        if left == 0 {
            return;
        }
        for i in start..m {
            cur.push(i as u8);
            out.push(cur.clone());
            rec(i + 1, m, left - 1, cur, out);
            cur.pop();
        }
    }
    rec(0, m, max, &mut vec![], &mut out);
    out
}

fn sequences(shapes: &[Shape], max: usize) -> Vec<Vec<Shape>> {
    let mut out = vec![vec![]];
    let mut layer = vec![vec![]];
    for _ in 0..max {
        let mut next = Vec::new();
        for s in &layer {
            for sh in shapes {
                let mut t: Vec<Shape> = s.clone();
                t.push(*sh);
                next.push(t);
            }
        }
        out.extend(next.iter().cloned());
        layer = next;
    }
    out
}

pub struct Transition<'a> {
    pub history: &'a [Step],
    pub exec: Executed,
}

#[derive(Default, Debug, Clone)]
pub struct LevelStats {
    pub level: usize,
    pub frontier: u64,
    pub transitions: u64,
    pub new_states: u64,
    pub violating_transitions: u64,
    pub complete: bool,
}

pub struct Exploration {
    pub states: u64,
    pub transitions: u64,
    pub levels: Vec<LevelStats>,
    /// shortest violation per key
    pub violations: BTreeMap<String, (usize, Violation)>,
    pub violating_transitions: u64,
    pub samples: Vec<Value>,
    pub complete: bool,
    pub max_live: usize,
    pub digest: u64,
}

/// Oracle: judges one executed transition; returns (violations, extra digest).
pub type Oracle<'o> = dyn Fn(&[Step], Executed) -> (Vec<Violation>, u64) + Sync + 'o;

pub fn explore(b: &Bounds, oracle: &Oracle, deadline: Option<Instant>, threads: usize) -> Exploration {
    let seen: Vec<Mutex<HashSet<Key>>> = (0..256).map(|_| Mutex::new(HashSet::new())).collect();
    let mut frontier: Vec<(Vec<Step>, usize)> = vec![(vec![], 0)]; // (history, live count)
    let mut out = Exploration {
        states: 1,
        transitions: 0,
        levels: vec![],
        violations: BTreeMap::new(),
        violating_transitions: 0,
        samples: vec![],
        complete: true,
        max_live: 0,
        digest: 0,
    };
    let seqs_first = sequences(&b.shapes, b.adds_first);
    let seqs_later = sequences(&b.shapes, b.adds_later);
    let seqs_by_level: Vec<Vec<Vec<Shape>>> = b.adds_by_level.as_ref().map(|v| v.iter().map(|n| sequences(&b.shapes, *n)).collect()).unwrap_or_default();
    for level in 0..b.variants {
        let seqs = if let Some(s) = seqs_by_level.get(level) {
            s
        } else if level == 0 {
            &seqs_first
        } else {
            &seqs_later
        };
        let removals = b.removals_by_level.as_ref().and_then(|v| v.get(level).copied()).unwrap_or(b.removals);
        // states first reached at this level: key -> smallest history reaching it (deterministic
        // representative whatever the thread interleaving)
        let level_new: Vec<Mutex<HashMap<Key, Vec<Step>>>> = (0..256).map(|_| Mutex::new(HashMap::new())).collect();
        let viol: Mutex<BTreeMap<String, (usize, Violation)>> = Mutex::new(BTreeMap::new());
        let cursor = AtomicUsize::new(0);
        let transitions = AtomicU64::new(0);
        let violating = AtomicU64::new(0);
        let new_states = AtomicU64::new(0);
        let max_live = AtomicUsize::new(0);
        let digest = AtomicU64::new(0);
        let timed_out = std::sync::atomic::AtomicBool::new(false);
        std::thread::scope(|s| {
            for _ in 0..threads.max(1) {
                s.spawn(|| {
                    loop {
                        let i = cursor.fetch_add(1, Ordering::Relaxed);
                        if i >= frontier.len() {
                            break;
                        }
                        if let Some(d) = deadline {
                            if Instant::now() > d {
                                timed_out.store(true, Ordering::Relaxed);
                                break;
                            }
                        }
                        // memory cap (no swap on the host): treated like the time cap - the level is
                        // reported as incomplete instead of the process being killed
                        if i % 512 == 0 && resident_gb() > RSS_CAP_GB {
                            timed_out.store(true, Ordering::Relaxed);
                            break;
                        }
                        let (hist, m) = &frontier[i];
                        let rems = subsets(*m, removals);
                        // (ghost shape, removed late)
                        let ghosts: Vec<(Option<Shape>, bool)> = if b.ghosts && b.ghosts_late {
                            vec![(None, false), (Some(Shape::new(4, 4)), false), (Some(Shape::new(4, 4)), true)]
                        } else if b.ghosts {
                            vec![(None, false), (Some(Shape::new(4, 4)), false)]
                        } else {
                            vec![(None, false)]
                        };
                        for rem in &rems {
                            for adds in seqs {
                                for (ghost, ghost_late) in &ghosts {
                                    if level > 0 && rem.is_empty() && adds.is_empty() && ghost.is_none() {
                                        continue; // the no-op close belongs to request mode
                                    }
                                    if *ghost_late && adds.is_empty() {
                                        continue; // same as the immediate removal
                                    }
                                    for &strat in &b.strategies {
                                        // with no addition the four strategies only differ in how
                                        // they remove: keep them all, it is cheap
                                        let mut h2 = hist.clone();
                                        h2.push(Step {
                                            remove: rem.clone(),
                                            ghost: *ghost,
                                            ghost_late: *ghost_late,
                                            add: adds.clone(),
                                            strat,
                                        });
                                        transitions.fetch_add(1, Ordering::Relaxed);
                                        // the real API may panic under our feet (looking a datum of a
                                        // closed variant up by id, ...): that is a verdict, not a crash
                                        let judged = std::panic::catch_unwind(std::panic::AssertUnwindSafe(|| {
                                            let ex = execute(&h2, b.naming);
                                            let closed = ex.failure.is_none();
                                            let last = ex.variants.last().cloned().unwrap_or_default();
                                            let ghost_ids = ex.ghosts.clone();
                                            let (vs, dg) = oracle(&h2, ex);
                                            (closed, last, ghost_ids, vs, dg)
                                        }));
                                        let (closed, last, ghost_ids, vs, dg) = match judged {
                                            Ok(x) => x,
                                            Err(p) => (
                                                false,
                                                vec![],
                                                vec![],
                                                vec![Violation::new(
                                                    format!("{}/panic-while-observing", b.prop),
                                                    format!(
                                                        "the builder's own lookups panicked while the history was replayed and observed: {} ({})",
                                                        vcommon::panic_message(&*p),
                                                        h2.iter().map(Step::describe).collect::<Vec<_>>().join(" ; ")
                                                    ),
                                                    history_json(&h2),
                                                )],
                                                0,
                                            ),
                                        };
                                        digest.fetch_xor(dg, Ordering::Relaxed);
                                        if !vs.is_empty() {
                                            violating.fetch_add(1, Ordering::Relaxed);
                                            let mut g = viol.lock().unwrap();
                                            for v in vs {
                                                let len: usize = h2.iter().map(|s| 1 + s.add.len() + s.remove.len()).sum();
                                                let e = g.entry(v.key.clone());
                                                match e {
                                                    std::collections::btree_map::Entry::Vacant(x) => {
                                                        x.insert((len, v));
                                                    }
                                                    std::collections::btree_map::Entry::Occupied(mut x) => {
                                                        if len < x.get().0 {
                                                            x.insert((len, v));
                                                        }
                                                    }
                                                }
                                            }
                                            // a state showing a violation is not expanded
                                            continue;
                                        }
                                        if !closed {
                                            continue;
                                        }
                                        max_live.fetch_max(last.len(), Ordering::Relaxed);
                                        let key = key_of(&last, b.with_ranks, b.ghosts.then_some(&ghost_ids[..]));
                                        let shard = (key.iter().fold(0u32, |a, x| a.wrapping_mul(31).wrapping_add(*x as u32)) & 255) as usize;
                                        if seen[shard].lock().unwrap().contains(&key) {
                                            continue;
                                        }
                                        let mut g = level_new[shard].lock().unwrap();
                                        match g.get_mut(&key) {
                                            None => {
                                                new_states.fetch_add(1, Ordering::Relaxed);
                                                g.insert(key, h2);
                                            }
                                            Some(old) => {
                                                if h2 < *old {
                                                    *old = h2;
                                                }
                                            }
                                        }
                                    }
                                }
                            }
                        }
                    }
                });
            }
        });
        let complete = !timed_out.load(Ordering::Relaxed);
        let st = LevelStats {
            level: level + 1,
            frontier: frontier.len() as u64,
            transitions: transitions.load(Ordering::Relaxed),
            new_states: new_states.load(Ordering::Relaxed),
            violating_transitions: violating.load(Ordering::Relaxed),
            complete,
        };
        out.transitions += st.transitions;
        out.states += st.new_states;
        out.violating_transitions += st.violating_transitions;
        out.max_live = out.max_live.max(max_live.load(Ordering::Relaxed));
        out.digest ^= digest.load(Ordering::Relaxed);
        eprintln!(
            "  level {}: frontier {} transitions {} new states {} violating {}{}",
            st.level, st.frontier, st.transitions, st.new_states, st.violating_transitions,
            if complete { "" } else { " (INCOMPLETE: time or memory cap)" }
        );
        out.levels.push(st);
        for (k, (len, v)) in viol.into_inner().unwrap() {
            match out.violations.get(&k) {
                Some((l0, _)) if *l0 <= len => {}
                _ => {
                    out.violations.insert(k, (len, v));
                }
            }
        }
        frontier = Vec::new();
        for (shard, m) in level_new.into_iter().enumerate() {
            let m = m.into_inner().unwrap();
            let mut s = seen[shard].lock().unwrap();
            for (k, h) in m {
                // live count = number of entries of the key
                let per = 5 + b.with_ranks as usize + b.ghosts as usize;
                frontier.push((h, (k.len() - b.ghosts as usize) / per));
                s.insert(k);
            }
        }
        frontier.sort();
        if out.samples.len() < 4 {
            if let Some((h, _)) = frontier.get(frontier.len() / 2) {
                out.samples.push(history_json(h));
            }
        }
        if !complete {
            out.complete = false;
            break;
        }
    }
    out
}

#[allow(dead_code)]
pub const RSS_CAP_GB: f64 = 36.0;

/// Resident set of this process in GB (0 when /proc is not readable).
pub fn resident_gb() -> f64 {
    std::fs::read_to_string("/proc/self/statm")
        .ok()
        .and_then(|s| s.split_whitespace().nth(1).and_then(|p| p.parse::<f64>().ok()))
        .map(|pages| pages * 4096.0 / 1e9)
        .unwrap_or(0.0)
}

pub fn default_deadline(secs: u64) -> Option<Instant> {
    Some(Instant::now() + Duration::from_secs(secs))
}
