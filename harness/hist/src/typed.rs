//! Engine A, typed mode (C18): the layout is a function of the resolver's answers only, and the
//! pre-computed type tables are faithful.
//!
//! (1) every (type x entry point) attaches exactly the resolver's answer / the override;
//! (2) every typed history up to a bound, run on the real native builder under a synthetic
//!     resolver whose answers differ from the host's, gives the same lists and offsets as the same
//!     history with the same numbers injected explicitly;
//! (3) every entry of the standard table: typed and dynamic lookups = registration = host
//!     resolver, and identical after the JSON round trip.

use std::{
    collections::{BTreeMap, HashMap, HashSet},
    panic::{catch_unwind, AssertUnwindSafe},
};

use truc::record::{
    definition::{
        builder::native::{variant, DatumDefinitionOverride, NativeRecordDefinitionBuilder},
        DatumId, RecordVariantId,
    },
    type_resolver::{DynamicTypeInfo, HostTypeResolver, StaticTypeResolver, TypeInfo, TypeResolver},
};
use vcommon::{json, Args, Report, Tier, Value, Violation};

// ---------------------------------------------------------------------------------------
// synthetic resolver ("a 32-bit table on a 64-bit host", and worse)
// ---------------------------------------------------------------------------------------

struct Ty {
    /// what std::any::type_name gives
    std_name: &'static str,
    /// the name the resolver answers with
    name: &'static str,
    size: usize,
    align: usize,
    copy: bool,
}

const TYPES: &[Ty] = &[
    Ty { std_name: "u8", name: "u8", size: 1, align: 1, copy: true },
    Ty { std_name: "u16", name: "u16", size: 2, align: 2, copy: true },
    Ty { std_name: "u32", name: "u32", size: 4, align: 4, copy: true },
    Ty { std_name: "u64", name: "u64", size: 8, align: 4, copy: true },
    Ty { std_name: "u128", name: "u128", size: 16, align: 4, copy: true },
    Ty { std_name: "usize", name: "usize", size: 4, align: 4, copy: true },
    Ty { std_name: "f64", name: "f64", size: 8, align: 4, copy: true },
    Ty { std_name: "alloc::string::String", name: "String", size: 12, align: 4, copy: false },
    Ty { std_name: "[u8; 3]", name: "[u8 ; 3]", size: 3, align: 1, copy: true },
    Ty { std_name: "()", name: "()", size: 0, align: 1, copy: true },
    // zero-size types have a target-dependent alignment too
    Ty { std_name: "[u64; 0]", name: "[u64 ; 0]", size: 0, align: 4, copy: true },
    Ty { std_name: "[u16; 0]", name: "[u16 ; 0]", size: 0, align: 16, copy: true },
    // an alignment beyond every host alignment of the standard types (host: 64 / 8)
    Ty { std_name: "[u64; 8]", name: "[u64 ; 8]", size: 64, align: 32, copy: true },
];

struct Synth;

impl Synth {
    fn by_std(name: &str) -> &'static Ty {
        TYPES
            .iter()
            .find(|t| t.std_name == name)
            .unwrap_or_else(|| panic!("synthetic resolver: unknown type {}", name))
    }
}

impl TypeResolver for Synth {
    fn type_info<T>(&self) -> TypeInfo {
        let t = Self::by_std(std::any::type_name::<T>());
        TypeInfo { name: t.name.to_owned(), size: t.size, align: t.align }
    }
    fn dynamic_type_info(&self, type_name: &str) -> DynamicTypeInfo {
        let t = TYPES
            .iter()
            .find(|t| t.name == type_name || t.std_name == type_name)
            .unwrap_or_else(|| panic!("synthetic resolver: unknown type {}", type_name));
        DynamicTypeInfo {
            info: TypeInfo { name: t.name.to_owned(), size: t.size, align: t.align },
            allow_uninit: t.copy,
        }
    }
}

#[derive(Clone, Copy, PartialEq, Eq, Hash, Debug, PartialOrd, Ord)]
enum Entry {
    Typed,
    Uninit,
    Dynamic,
    /// bit 0 name, 1 size, 2 align, 3 allow_uninit overridden
    Override(u8),
    Copy,
    /// copy of a datum of a definition that was built under the *host* resolver: the copy carries
    /// what its source says (host numbers), later additions must still get the resolver's answers
    CopyForeign,
}

const OVR_NAME: &str = "Overridden";
const OVR_SIZE: usize = 20;
const OVR_ALIGN: usize = 2;

fn all_entries() -> Vec<Entry> {
    let mut v = vec![Entry::Typed, Entry::Uninit, Entry::Dynamic, Entry::Copy, Entry::CopyForeign];
    v.extend((0..16).map(Entry::Override));
    v
}

macro_rules! with_type {
    ($idx:expr, $f:ident, $($args:expr),*) => {
        match $idx {
            0 => $f::<u8>($($args),*),
            1 => $f::<u16>($($args),*),
            2 => $f::<u32>($($args),*),
            3 => $f::<u64>($($args),*),
            4 => $f::<u128>($($args),*),
            5 => $f::<usize>($($args),*),
            6 => $f::<f64>($($args),*),
            7 => $f::<String>($($args),*),
            8 => $f::<[u8; 3]>($($args),*),
            9 => $f::<()>($($args),*),
            10 => $f::<[u64; 0]>($($args),*),
            11 => $f::<[u16; 0]>($($args),*),
            _ => $f::<[u64; 8]>($($args),*),
        }
    };
}

macro_rules! with_copy_type {
    ($idx:expr, $f:ident, $($args:expr),*) => {
        match $idx {
            0 => $f::<u8>($($args),*),
            1 => $f::<u16>($($args),*),
            2 => $f::<u32>($($args),*),
            3 => $f::<u64>($($args),*),
            4 => $f::<u128>($($args),*),
            5 => $f::<usize>($($args),*),
            6 => $f::<f64>($($args),*),
            8 => $f::<[u8; 3]>($($args),*),
            9 => $f::<()>($($args),*),
            10 => $f::<[u64; 0]>($($args),*),
            11 => $f::<[u16; 0]>($($args),*),
            12 => $f::<[u64; 8]>($($args),*),
            _ => unreachable!(),
        }
    };
}

/// A second synthetic resolver: every size and alignment twice what `Synth` answers. Used to show
/// that what a builder attaches to a datum comes from *its* resolver, whatever other builders of
/// the process resolved before (a process-wide memo of type information would pass every check
/// that only ever uses one resolver for typed requests).
struct Synth2;

impl TypeResolver for Synth2 {
    fn type_info<T>(&self) -> TypeInfo {
        let t = Synth::by_std(std::any::type_name::<T>());
        TypeInfo { name: t.name.to_owned(), size: t.size * 2, align: t.align * 2 }
    }
    fn dynamic_type_info(&self, type_name: &str) -> DynamicTypeInfo {
        let mut d = Synth.dynamic_type_info(type_name);
        d.info.size *= 2;
        d.info.align *= 2;
        d
    }
}

#[derive(Clone, Copy, Debug, PartialEq)]
enum Res {
    Synth,
    Synth2,
    Host,
}

fn read_back<R: TypeResolver>(b: &NativeRecordDefinitionBuilder<R>, id: DatumId) -> (usize, usize, bool) {
    let d = &b[id];
    (d.details().size(), d.details().type_align(), d.details().allow_uninit())
}

fn probe_typed<T>(r: Res) -> (usize, usize, bool) {
    match r {
        Res::Synth => {
            let mut b = NativeRecordDefinitionBuilder::new(Synth);
            let id = b.add_datum::<T, _>("p").expect("valid add");
            read_back(&b, id)
        }
        Res::Synth2 => {
            let mut b = NativeRecordDefinitionBuilder::new(Synth2);
            let id = b.add_datum::<T, _>("p").expect("valid add");
            read_back(&b, id)
        }
        Res::Host => {
            let mut b = NativeRecordDefinitionBuilder::new(HostTypeResolver);
            let id = b.add_datum::<T, _>("p").expect("valid add");
            read_back(&b, id)
        }
    }
}

fn probe_uninit<T: Copy>(r: Res) -> (usize, usize, bool) {
    match r {
        Res::Synth => {
            let mut b = NativeRecordDefinitionBuilder::new(Synth);
            let id = b.add_datum_allow_uninit::<T, _>("p").expect("valid add");
            read_back(&b, id)
        }
        Res::Synth2 => {
            let mut b = NativeRecordDefinitionBuilder::new(Synth2);
            let id = b.add_datum_allow_uninit::<T, _>("p").expect("valid add");
            read_back(&b, id)
        }
        Res::Host => {
            let mut b = NativeRecordDefinitionBuilder::new(HostTypeResolver);
            let id = b.add_datum_allow_uninit::<T, _>("p").expect("valid add");
            read_back(&b, id)
        }
    }
}

fn probe_dynamic(ty: usize, r: Res) -> (usize, usize, bool) {
    match r {
        Res::Synth => {
            let mut b = NativeRecordDefinitionBuilder::new(Synth);
            let id = b.add_dynamic_datum("p", TYPES[ty].name).expect("valid add");
            read_back(&b, id)
        }
        _ => {
            let mut b = NativeRecordDefinitionBuilder::new(Synth2);
            let id = b.add_dynamic_datum("p", TYPES[ty].name).expect("valid add");
            read_back(&b, id)
        }
    }
}

/// Every type x {typed, may-be-uninit, dynamic} requested from fresh builders under three
/// resolvers one after the other in this process (second synthetic, synthetic, host, synthetic
/// again): each datum must carry the answer of its own builder's resolver.
fn check_across_resolvers() -> (u64, Vec<(String, String)>) {
    let mut n = 0u64;
    let mut bad = vec![];
    for ty in 0..TYPES.len() {
        let t = &TYPES[ty];
        let (hs, ha) = host_layout(ty);
        for entry in [Entry::Typed, Entry::Uninit, Entry::Dynamic] {
            if !applicable(ty, entry) {
                continue;
            }
            let flag = match entry {
                Entry::Typed => false,
                Entry::Uninit => true,
                _ => t.copy,
            };
            for r in [Res::Synth2, Res::Synth, Res::Host, Res::Synth] {
                if entry == Entry::Dynamic && r == Res::Host {
                    continue; // the host resolver has no dynamic types
                }
                let want = match r {
                    Res::Synth => (t.size, t.align, flag),
                    Res::Synth2 => (t.size * 2, t.align * 2, flag),
                    Res::Host => (hs, ha, flag),
                };
                let got = catch_unwind(AssertUnwindSafe(|| match entry {
                    Entry::Typed => with_type!(ty, probe_typed, r),
                    Entry::Uninit => with_copy_type!(ty, probe_uninit, r),
                    _ => probe_dynamic(ty, r),
                }));
                n += 1;
                match got {
                    Ok(g) if g == want => {}
                    Ok(g) => bad.push((
                        format!("type-info-across-resolvers/{:?}", entry),
                        format!("a datum of type {} added through {:?} to a fresh builder under resolver {:?} carries (size, align, may-be-uninit) = {:?}; that resolver answers {:?} (other builders of this process had resolved the type under other resolvers before)", t.std_name, entry, r, g, want),
                    )),
                    Err(_) => bad.push((
                        format!("type-info-across-resolvers/{:?}/panic", entry),
                        format!("adding a datum of type {} through {:?} to a fresh builder under resolver {:?} panicked", t.std_name, entry, r),
                    )),
                }
            }
        }
    }
    (n, bad)
}

type SB = NativeRecordDefinitionBuilder<Synth>;
type HB = NativeRecordDefinitionBuilder<HostTypeResolver>;

fn add_typed<T>(b: &mut SB, name: &str) -> Result<DatumId, String> {
    b.add_datum::<T, _>(name)
}
fn add_uninit<T: Copy>(b: &mut SB, name: &str) -> Result<DatumId, String> {
    b.add_datum_allow_uninit::<T, _>(name)
}
fn add_override<T>(b: &mut SB, name: &str, mask: u8) -> Result<DatumId, String> {
    b.add_datum_override::<T, _>(
        name,
        DatumDefinitionOverride {
            type_name: (mask & 1 != 0).then(|| OVR_NAME.to_owned()),
            size: (mask & 2 != 0).then_some(OVR_SIZE),
            align: (mask & 4 != 0).then_some(OVR_ALIGN),
            allow_uninit: (mask & 8 != 0).then_some(true),
        },
    )
}

/// What must be attached to a datum of type `ty` added through `entry`.
fn expected(ty: usize, entry: Entry) -> (String, usize, usize, bool) {
    let t = &TYPES[ty];
    match entry {
        Entry::Typed => (t.name.to_owned(), t.size, t.align, false),
        Entry::Uninit => (t.name.to_owned(), t.size, t.align, true),
        Entry::Dynamic | Entry::Copy => (t.name.to_owned(), t.size, t.align, t.copy),
        Entry::CopyForeign => {
            let (size, align) = host_layout(ty);
            (t.name.to_owned(), size, align, false)
        }
        Entry::Override(m) => (
            if m & 1 != 0 { OVR_NAME.to_owned() } else { t.name.to_owned() },
            if m & 2 != 0 { OVR_SIZE } else { t.size },
            if m & 4 != 0 { OVR_ALIGN } else { t.align },
            m & 8 != 0,
        ),
    }
}

fn host_of<T>() -> (usize, usize) {
    (std::mem::size_of::<T>(), std::mem::align_of::<T>())
}
fn host_layout(ty: usize) -> (usize, usize) {
    with_type!(ty, host_of,)
}

fn applicable(ty: usize, entry: Entry) -> bool {
    !(entry == Entry::Uninit && !TYPES[ty].copy)
}

fn add_synth(b: &mut SB, name: &str, ty: usize, entry: Entry) -> Result<DatumId, String> {
    match entry {
        Entry::Typed => with_type!(ty, add_typed, b, name),
        Entry::Uninit => with_copy_type!(ty, add_uninit, b, name),
        Entry::Dynamic => b.add_dynamic_datum(name, TYPES[ty].name),
        Entry::Override(m) => with_type!(ty, add_override, b, name, m),
        Entry::Copy => {
            // a datum of another definition, built under the same resolver
            let mut other = NativeRecordDefinitionBuilder::new(Synth);
            let id = other.add_dynamic_datum(name, TYPES[ty].name)?;
            other.close_record_variant();
            let def = other.build();
            b.copy_datum(&def[id])
        }
        Entry::CopyForeign => {
            let mut other = NativeRecordDefinitionBuilder::new(HostTypeResolver);
            let (size, align) = host_layout(ty);
            let id = other.add_datum_override::<(), _>(
                name,
                DatumDefinitionOverride { type_name: Some(TYPES[ty].name.to_owned()), size: Some(size), align: Some(align), allow_uninit: Some(false) },
            )?;
            other.close_record_variant();
            let def = other.build();
            b.copy_datum(&def[id])
        }
    }
}

/// The same request with the numbers injected explicitly, under the host resolver.
fn add_host(b: &mut HB, name: &str, ty: usize, entry: Entry) -> Result<DatumId, String> {
    let (n, s, a, u) = expected(ty, entry);
    b.add_datum_override::<(), _>(
        name,
        DatumDefinitionOverride { type_name: Some(n), size: Some(s), align: Some(a), allow_uninit: Some(u) },
    )
}

#[derive(Clone, PartialEq, Eq, Hash, Debug, PartialOrd, Ord)]
struct TStep {
    remove: Vec<u8>,
    add: Vec<(u8, Entry)>,
    strat: u8,
}

fn entry_json(e: Entry) -> Value {
    match e {
        Entry::Override(m) => json!({"override_mask_name_size_align_uninit": m}),
        other => json!(format!("{:?}", other)),
    }
}

fn entry_from(v: &Value) -> Entry {
    if let Some(m) = v["override_mask_name_size_align_uninit"].as_u64() {
        return Entry::Override(m as u8);
    }
    match v.as_str() {
        Some("Typed") => Entry::Typed,
        Some("Uninit") => Entry::Uninit,
        Some("Dynamic") => Entry::Dynamic,
        Some("CopyForeign") => Entry::CopyForeign,
        _ => Entry::Copy,
    }
}

fn hist_json(h: &[TStep]) -> Value {
    json!({"space": "typed-history", "steps": h.iter().map(|s| json!({
        "remove_positions": s.remove,
        "add": s.add.iter().map(|(t, e)| json!({"type": TYPES[*t as usize].std_name, "entry": entry_json(*e)})).collect::<Vec<_>>(),
        "close_with": crate::exec::STRATEGIES[s.strat as usize],
    })).collect::<Vec<_>>()})
}

fn hist_from(v: &Value) -> Vec<TStep> {
    v["steps"]
        .as_array()
        .map(|a| {
            a.iter()
                .map(|s| TStep {
                    remove: s["remove_positions"].as_array().map(|r| r.iter().map(|x| x.as_u64().unwrap() as u8).collect()).unwrap_or_default(),
                    add: s["add"]
                        .as_array()
                        .map(|r| {
                            r.iter()
                                .map(|x| (TYPES.iter().position(|t| Some(t.std_name) == x["type"].as_str()).unwrap() as u8, entry_from(&x["entry"])))
                                .collect()
                        })
                        .unwrap_or_default(),
                    strat: crate::exec::STRATEGIES.iter().position(|n| Some(*n) == s["close_with"].as_str()).unwrap_or(0) as u8,
                })
                .collect()
        })
        .unwrap_or_default()
}

type Obs = Vec<(String, String, usize, usize, usize, bool)>; // name, type, size, align, offset, uninit

fn close_s(b: &mut SB, s: u8) -> RecordVariantId {
    match s {
        0 => b.close_record_variant_with(variant::simple),
        1 => b.close_record_variant_with(variant::basic),
        2 => b.close_record_variant_with(variant::append_data),
        _ => b.close_record_variant_with(variant::append_data_reverse),
    }
}
fn close_h(b: &mut HB, s: u8) -> RecordVariantId {
    match s {
        0 => b.close_record_variant_with(variant::simple),
        1 => b.close_record_variant_with(variant::basic),
        2 => b.close_record_variant_with(variant::append_data),
        _ => b.close_record_variant_with(variant::append_data_reverse),
    }
}

/// Runs the history on both sides; returns the per-variant observations of the synthetic side or
/// a violation.
fn run_both(h: &[TStep]) -> Result<Vec<Obs>, (String, String)> {
    let res = catch_unwind(AssertUnwindSafe(|| -> Result<Vec<Obs>, (String, String)> {
        let mut sb: SB = NativeRecordDefinitionBuilder::new(Synth);
        let mut hb: HB = NativeRecordDefinitionBuilder::new(HostTypeResolver);
        let mut s_last: Vec<DatumId> = vec![];
        let mut h_last: Vec<DatumId> = vec![];
        let mut out = vec![];
        let mut n = 0;
        for step in h {
            for &p in &step.remove {
                sb.remove_datum(s_last[p as usize]).map_err(|e| ("valid-removal-rejected".to_owned(), e))?;
                hb.remove_datum(h_last[p as usize]).map_err(|e| ("valid-removal-rejected".to_owned(), e))?;
            }
            for &(ty, entry) in &step.add {
                n += 1;
                let name = format!("d{}", n);
                let id = add_synth(&mut sb, &name, ty as usize, entry).map_err(|e| ("valid-add-rejected".to_owned(), e))?;
                add_host(&mut hb, &name, ty as usize, entry).map_err(|e| ("valid-add-rejected".to_owned(), e))?;
                let d = &sb[id];
                let got = (d.details().type_name().to_owned(), d.details().size(), d.details().type_align(), d.details().allow_uninit());
                let want = expected(ty as usize, entry);
                if got != want {
                    return Err((
                        format!("type-info/{:?}", match entry { Entry::Override(_) => "Override".to_owned(), e => format!("{:?}", e) }),
                        format!("datum of type {} added through {:?} carries (name, size, align, may-be-uninit) = {:?}; the resolver / override said {:?}", TYPES[ty as usize].std_name, entry, got, want),
                    ));
                }
            }
            let sv = close_s(&mut sb, step.strat);
            let hv = close_h(&mut hb, step.strat);
            s_last = sb[sv].data().collect();
            h_last = hb[hv].data().collect();
            let so: Obs = s_last.iter().map(|id| { let d = &sb[*id]; (d.name().to_owned(), d.details().type_name().to_owned(), d.details().size(), d.details().type_align(), d.details().offset(), d.details().allow_uninit()) }).collect();
            let ho: Obs = h_last.iter().map(|id| { let d = &hb[*id]; (d.name().to_owned(), d.details().type_name().to_owned(), d.details().size(), d.details().type_align(), d.details().offset(), d.details().allow_uninit()) }).collect();
            if so != ho {
                return Err((
                    format!("layout-differs/closed-with-{}", crate::exec::STRATEGIES[step.strat as usize]),
                    format!("under the synthetic resolver the variant is {:?}; with the same sizes and alignments given explicitly it is {:?}", so, ho),
                ));
            }
            out.push(so);
        }
        let sd = sb.build();
        let hd = hb.build();
        if (sd.max_size(), sd.max_type_align()) != (hd.max_size(), hd.max_type_align()) {
            return Err(("capacity-differs".to_owned(), format!("capacity/alignment ({}, {}) vs ({}, {})", sd.max_size(), sd.max_type_align(), hd.max_size(), hd.max_type_align())));
        }
        Ok(out)
    }));
    match res {
        Ok(r) => r,
        Err(p) => Err(("panic".to_owned(), vcommon::panic_message(&*p))),
    }
}

// ---------------------------------------------------------------------------------------
// standard table
// ---------------------------------------------------------------------------------------

fn check_std<T>(table: &StaticTypeResolver, again: &StaticTypeResolver, copy: bool, count: &mut u64, bad: &mut Vec<(String, String)>) {
    // the generic part is kept tiny (418 instantiations)
    let host = HostTypeResolver.type_info::<T>();
    let typed = catch_unwind(AssertUnwindSafe(|| table.type_info::<T>())).ok();
    check_std_inner(table, again, copy, count, bad, host, typed, std::any::type_name::<T>(), std::mem::size_of::<T>(), std::mem::align_of::<T>());
}

#[allow(clippy::too_many_arguments)]
fn check_std_inner(
    table: &StaticTypeResolver,
    again: &StaticTypeResolver,
    copy: bool,
    count: &mut u64,
    bad: &mut Vec<(String, String)>,
    host: TypeInfo,
    typed: Option<TypeInfo>,
    std_name: &str,
    size: usize,
    align: usize,
) {
    *count += 1;
    let typed = match typed {
        Some(t) => t,
        None => {
            bad.push(("table/typed-lookup-failed".into(), format!("{} is not found by type", std_name)));
            return;
        }
    };
    if typed != host || host.size != size || host.align != align {
        bad.push(("table/typed-differs-from-host".into(), format!("{}: table {:?}, host {:?}, real ({}, {})", std_name, typed, host, size, align)));
    }
    // every spelling: the recorded name, the compiler's name, without spaces
    let mut spellings = vec![host.name.clone(), std_name.to_owned(), host.name.replace(' ', "")];
    spellings.push(format!(" {} ", std_name.replace(", ", " ,  ")));
    for sp in spellings {
        for (which, t) in [("table", table), ("table-after-json", again)] {
            match catch_unwind(AssertUnwindSafe(|| t.dynamic_type_info(&sp))) {
                Ok(d) => {
                    if d.info != host || d.allow_uninit != copy {
                        bad.push((format!("{}/dynamic-differs", which), format!("{:?}: {} answers {:?}, registered {:?} (may-be-uninit {})", sp, which, d, host, copy)));
                    }
                }
                Err(_) => bad.push((format!("{}/dynamic-lookup-failed", which), format!("{} does not find {:?}", which, sp))),
            }
        }
    }
}

macro_rules! std_one {
    ($t:ty, $copy:expr, $c:ident) => {
        check_std::<$t>($c.0, $c.1, $copy, $c.2, $c.3);
        check_std::<Option<$t>>($c.0, $c.1, $copy, $c.2, $c.3);
    };
}
macro_rules! std_arrays {
    ($t:ty, $copy:expr, $c:ident) => {
        std_one!($t, $copy, $c);
        std_one!([$t; 1], $copy, $c);
        std_one!([$t; 2], $copy, $c);
        std_one!([$t; 3], $copy, $c);
        std_one!([$t; 4], $copy, $c);
        std_one!([$t; 5], $copy, $c);
        std_one!([$t; 6], $copy, $c);
        std_one!([$t; 7], $copy, $c);
        std_one!([$t; 8], $copy, $c);
        std_one!([$t; 9], $copy, $c);
        std_one!([$t; 10], $copy, $c);
    };
}

fn check_table() -> (u64, u64, Vec<(String, String)>) {
    let mut table = StaticTypeResolver::new();
    table.add_std_types();
    let js = table.to_json_string().expect("json");
    let map: BTreeMap<String, DynamicTypeInfo> = serde_json::from_str(&js).expect("parse");
    let n_entries = map.len() as u64;
    let again = StaticTypeResolver::from(map.clone());
    let mut bad = vec![];
    let mut count = 0u64;
    {
        let mut c = (&table, &again, &mut count, &mut bad);
        let c = &mut c;
        std_arrays!(u8, true, c);
        std_arrays!(u16, true, c);
        std_arrays!(u32, true, c);
        std_arrays!(u64, true, c);
        std_arrays!(u128, true, c);
        std_arrays!(usize, true, c);
        std_arrays!(i8, true, c);
        std_arrays!(i16, true, c);
        std_arrays!(i32, true, c);
        std_arrays!(i64, true, c);
        std_arrays!(i128, true, c);
        std_arrays!(isize, true, c);
        std_arrays!(f32, true, c);
        std_arrays!(f64, true, c);
        std_arrays!(char, true, c);
        std_arrays!(bool, true, c);
        std_arrays!(String, false, c);
        std_arrays!(Box<str>, false, c);
        std_arrays!(Vec<()>, false, c);
    }
    if count != n_entries {
        bad.push(("table/entry-count".into(), format!("the standard table has {} entries, {} standard types were checked", n_entries, count)));
    }
    // every entry of the JSON form answers itself, before and after the round trip
    for (name, info) in &map {
        for (which, t) in [("table", &table), ("table-after-json", &again)] {
            match catch_unwind(AssertUnwindSafe(|| t.dynamic_type_info(name))) {
                Ok(d) => {
                    if d.info != info.info || d.allow_uninit != info.allow_uninit || &d.info.name != name {
                        bad.push((format!("{}/entry-differs", which), format!("{}: {:?} vs registered {:?}", name, d, info)));
                    }
                }
                Err(_) => bad.push((format!("{}/entry-lookup-failed", which), name.clone())),
            }
        }
    }
    let js2 = again.to_json_string().expect("json");
    if js2 != js {
        bad.push(("table/json-roundtrip-differs".into(), "to_json_string() differs after from_str -> from".into()));
    }
    // a user registration is answered as registered
    #[derive(Clone, Copy)]
    #[allow(dead_code)]
    struct Custom(u16, u8);
    let mut t2 = StaticTypeResolver::new();
    t2.add_type::<Custom>();
    t2.add_type_allow_uninit::<(u8, Custom)>();
    let a = t2.type_info::<Custom>();
    if a.size != std::mem::size_of::<Custom>() || a.align != std::mem::align_of::<Custom>() {
        bad.push(("table/custom-registration".into(), format!("{:?}", a)));
    }
    let d = t2.dynamic_type_info(&a.name);
    if d.info != a || d.allow_uninit {
        bad.push(("table/custom-registration".into(), format!("{:?}", d)));
    }
    let d2 = t2.dynamic_type_info(std::any::type_name::<(u8, Custom)>());
    if !d2.allow_uninit || d2.info.size != std::mem::size_of::<(u8, Custom)>() {
        bad.push(("table/custom-registration".into(), format!("{:?}", d2)));
    }
    // a rejected registration (the type is already there) must leave the table as it was
    {
        let mut t3 = StaticTypeResolver::new();
        t3.add_type::<Custom>();
        let before = t3.to_json_string().expect("json");
        let r = catch_unwind(AssertUnwindSafe(|| t3.add_type_allow_uninit::<Custom>()));
        if r.is_ok() {
            bad.push(("table/duplicate-registration-accepted".into(), "registering a type twice did not fail".into()));
        }
        let after = t3.to_json_string().expect("json");
        if before != after {
            bad.push(("table/rejected-registration-changed-the-table".into(), format!("before {} after {}", before, after)));
        }
        // a table produced elsewhere (numbers that are not the host's)
        let foreign: BTreeMap<String, DynamicTypeInfo> = serde_json::from_str(
            r#"{"usize":{"info":{"name":"usize","size":4,"align":4},"allow_uninit":true},"String":{"info":{"name":"String","size":12,"align":4},"allow_uninit":false}}"#,
        )
        .expect("foreign table");
        let mut t4 = StaticTypeResolver::from(foreign);
        let before = t4.to_json_string().expect("json");
        let _ = catch_unwind(AssertUnwindSafe(|| t4.add_type_allow_uninit::<usize>()));
        let _ = catch_unwind(AssertUnwindSafe(|| t4.add_type::<String>()));
        let after = t4.to_json_string().expect("json");
        let a = t4.type_info::<usize>();
        if before != after || a.size != 4 || a.align != 4 || t4.dynamic_type_info("String").info.size != 12 {
            bad.push(("table/rejected-registration-changed-the-table".into(), format!("a table loaded with usize = 4/4, String = 12/4 answers {:?} after rejected registrations; before {} after {}", a, before, after)));
        }
    }
    (count, n_entries, bad)
}

// ---------------------------------------------------------------------------------------

fn subsets(m: usize, max: usize) -> Vec<Vec<u8>> {
    let mut out = vec![vec![]];
    if max >= 1 {
        for i in 0..m {
            out.push(vec![i as u8]);
        }
    }
    if max >= 2 {
        for i in 0..m {
            for j in (i + 1)..m {
                out.push(vec![i as u8, j as u8]);
            }
        }
    }
    out
}

pub fn main(args: &Args, threads: usize) -> ! {
    let mut report = Report::new("hist", args, "model_checking");
    let mut transitions = 0u64;
    let mut states = 1u64;
    let mut samples = vec![];

    // (0) the same typed request under three resolvers in one process
    let (across, across_bad) = check_across_resolvers();
    for (k, t) in across_bad {
        report.add(Violation::new(format!("C18/{}", k), t, json!({"space": "typed-history", "phase": "across-resolvers", "steps": []})));
    }
    transitions += across;
    report.cov("requests_across_three_resolvers_in_one_process", across);

    // (1) every type x entry point, alone and as second datum
    let mut single = 0u64;
    for ty in 0..TYPES.len() {
        for e in all_entries() {
            if !applicable(ty, e) {
                continue;
            }
            for first in [None, Some((0u8, Entry::Typed)), Some((3u8, Entry::Typed))] {
                let mut add = vec![];
                if let Some(f) = first {
                    add.push(f);
                }
                add.push((ty as u8, e));
                for strat in 0..4 {
                    let h = vec![TStep { remove: vec![], add: add.clone(), strat }];
                    single += 1;
                    if let Err((k, t)) = run_both(&h) {
                        report.add(Violation::new(format!("C18/{}", k), t, hist_json(&h)));
                    }
                }
            }
        }
    }
    transitions += single;

    // (2) typed histories: alphabet = 13 types x {typed, dynamic, copy, override(size+align)}
    let entries = [Entry::Typed, Entry::Dynamic, Entry::Copy, Entry::Override(6), Entry::CopyForeign];
    let mut alphabet: Vec<(u8, Entry)> = vec![];
    for ty in 0..TYPES.len() {
        for (i, e) in entries.iter().enumerate() {
            // rotate the entry points over the types (all 5 for types whose host layout differs
            // from the resolver's: u64, usize, String) to bound the alphabet
            if [3usize, 5, 7].contains(&ty) || ty < 2 && i < 4 || i == ty % 5 {
                alphabet.push((ty as u8, *e));
            }
        }
    }
    let (a1, a2, rmax, vmax) = if args.tier == Tier::Quick { (2, 1, 1, 3) } else { (3, 1, 2, 3) };
    let mut seqs1: Vec<Vec<(u8, Entry)>> = vec![vec![]];
    {
        let mut layer = vec![vec![]];
        for _ in 0..a1 {
            let mut next = vec![];
            for s in &layer {
                for a in &alphabet {
                    let mut t: Vec<(u8, Entry)> = s.clone();
                    t.push(*a);
                    next.push(t);
                }
            }
            seqs1.extend(next.iter().cloned());
            layer = next;
        }
    }
    let mut seqs2: Vec<Vec<(u8, Entry)>> = vec![vec![]];
    {
        let mut layer = vec![vec![]];
        for _ in 0..a2 {
            let mut next = vec![];
            for s in &layer {
                for a in &alphabet {
                    let mut t: Vec<(u8, Entry)> = s.clone();
                    t.push(*a);
                    next.push(t);
                }
            }
            seqs2.extend(next.iter().cloned());
            layer = next;
        }
    }
    let mut frontier: Vec<(Vec<TStep>, usize)> = vec![(vec![], 0)];
    let capped = std::sync::atomic::AtomicBool::new(false);
    let capped = &capped;
    let mut seen: HashSet<Vec<(usize, usize, usize, bool)>> = HashSet::new();
    let mut levels = vec![];
    for level in 0..vmax {
        let seqs = if level == 0 { &seqs1 } else { &seqs2 };
        let chunks: Vec<&[(Vec<TStep>, usize)]> = frontier.chunks((frontier.len() / threads.max(1)).max(1)).collect();
        let results: Vec<(u64, HashMap<Vec<(usize, usize, usize, bool)>, Vec<TStep>>, Vec<Violation>)> = std::thread::scope(|s| {
            let hs: Vec<_> = chunks
                .iter()
                .map(|chunk| {
                    s.spawn(move || {
                        let mut t = 0u64;
                        // one representative (the smallest history) per key, kept per thread: the
                        // list of all transitions of a level does not fit in memory at the deeper bounds
                        let mut new: HashMap<Vec<(usize, usize, usize, bool)>, Vec<TStep>> = HashMap::new();
                        let last_level = level + 1 == vmax;
                        let mut bad = vec![];
                        for (hist, m) in chunk.iter() {
                            // memory cap (no swap on the host): stop and report the level as incomplete
                            if capped.load(std::sync::atomic::Ordering::Relaxed) || crate::layout::resident_gb() > crate::layout::RSS_CAP_GB {
                                capped.store(true, std::sync::atomic::Ordering::Relaxed);
                                break;
                            }
                            for rem in subsets(*m, rmax) {
                                for adds in seqs {
                                    if level > 0 && rem.is_empty() && adds.is_empty() {
                                        continue;
                                    }
                                    for strat in 0..4u8 {
                                        let mut h2 = hist.clone();
                                        h2.push(TStep { remove: rem.clone(), add: adds.clone(), strat });
                                        t += 1;
                                        match run_both(&h2) {
                                            Ok(obs) => {
                                                let last = obs.last().cloned().unwrap_or_default();
                                                let key: Vec<(usize, usize, usize, bool)> = last.iter().map(|d| (d.4, d.2, d.3, d.5)).collect();
                                                match new.get_mut(&key) {
                                                    // the states of the last level are only counted
                                                    None => {
                                                        new.insert(key, if last_level { vec![] } else { h2 });
                                                    }
                                                    Some(old) => {
                                                        if !last_level && h2 < *old {
                                                            *old = h2;
                                                        }
                                                    }
                                                }
                                            }
                                            Err((k, txt)) => {
                                                if bad.len() < 50 {
                                                    bad.push(Violation::new(format!("C18/{}", k), txt, hist_json(&h2)));
                                                }
                                            }
                                        }
                                    }
                                }
                            }
                        }
                        (t, new, bad)
                    })
                })
                .collect();
            hs.into_iter().map(|h| h.join().unwrap()).collect()
        });
        let mut next: BTreeMap<Vec<(usize, usize, usize, bool)>, Vec<TStep>> = BTreeMap::new();
        let mut lt = 0;
        for (t, new, bad) in results {
            lt += t;
            for v in bad {
                report.add(v);
            }
            for (k, h) in new {
                if seen.contains(&k) {
                    continue;
                }
                match next.get_mut(&k) {
                    None => {
                        next.insert(k, h);
                    }
                    Some(old) => {
                        if h < *old {
                            *old = h;
                        }
                    }
                }
            }
        }
        transitions += lt;
        states += next.len() as u64;
        levels.push(json!({"level": level + 1, "frontier": frontier.len(), "transitions": lt, "new_states": next.len()}));
        eprintln!("  C18 level {}: frontier {} transitions {} new states {}", level + 1, frontier.len(), lt, next.len());
        frontier = next.into_iter().map(|(k, h)| { let m = k.len(); seen.insert(k); (h, m) }).collect();
        if let Some((h, _)) = frontier.get(frontier.len() / 2) {
            if samples.len() < 3 {
                samples.push(hist_json(h));
            }
        }
    }

    // (3) the standard table
    let (checked, entries_n, bad) = check_table();
    for (k, t) in bad {
        report.add(Violation::new(format!("C18/{}", k), t, json!({"space": "typed-history", "steps": [], "note": "standard type table"})));
    }
    let mut seen_keys = std::collections::BTreeSet::new();
    report.violations.retain(|v| seen_keys.insert(v.key.clone()));
    report
        .cov("states", states)
        .cov("transitions", transitions)
        .cov("traces_validated_against_impl", transitions)
        .cov("samples", samples)
        .cov("exhaustive", !capped.load(std::sync::atomic::Ordering::Relaxed))
        .cov("memory_cap_hit", capped.load(std::sync::atomic::Ordering::Relaxed))
        .cov("levels", levels)
        .cov("entry_point_cases", single)
        .cov("synthetic_types", TYPES.iter().map(|t| json!([t.std_name, t.size, t.align])).collect::<Vec<_>>())
        .cov("standard_table_entries", entries_n)
        .cov("standard_table_types_checked", checked)
        .cov("explanation", "differential model checking: every typed history within the bound is executed on the real native builder twice - under a synthetic resolver whose sizes/alignments differ from the host's, and under the host resolver with the same numbers injected explicitly - and lists, offsets, capacity and alignment must agree after every close; plus the finite (type x entry point) table and the whole standard type table with its JSON round trip");
    report.assume("synthetic resolver: u64/f64/u128 aligned 4, usize 4/4, String 12/4, [u64;0] aligned 4, [u16;0] aligned 16 (host: 8, 8, 16, 8/8, 24/8, 8, 2)");
    std::process::exit(report.finish());
}

pub fn replay(prop: &str, case: &Value) -> i32 {
    let h = hist_from(case);
    if h.is_empty() {
        let (_, _, mut bad) = check_table();
        bad.extend(check_across_resolvers().1);
        for (k, t) in &bad {
            println!("REPLAY-VIOLATION property={} key=C18/{} :: {}", prop, k, t);
        }
        return if bad.is_empty() { 0 } else { 1 };
    }
    match run_both(&h) {
        Ok(_) => {
            println!("REPLAY-OK property={}", prop);
            0
        }
        Err((k, t)) => {
            println!("REPLAY-VIOLATION property={} key=C18/{} :: {}", prop, k, t);
            1
        }
    }
}
