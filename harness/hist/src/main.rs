//! Engine A — explicit-state exploration of the real `truc` builders.
//!   layout mode : C01 C02 C03 C13 C19 C20 (+ the membership half of C12)
//!   request mode: C12
//!   typed mode  : C18

mod exec;
mod layout;
mod oracles;
mod request;
mod typed;

use std::time::{Duration, Instant};

use exec::*;
use layout::*;
use vcommon::{json, Report, Tier, Value};

const S: fn(u16, u16) -> Shape = Shape::new;

fn shapes8() -> Vec<Shape> {
    vec![S(1, 1), S(2, 2), S(4, 4), S(0, 1), S(3, 1), S(8, 8), S(0, 4), S(12, 4)]
}

fn shapes14() -> Vec<Shape> {
    let mut v = shapes8();
    // (6,4): a size that is not a multiple of the alignment (only an override can record that)
    v.extend([S(16, 16), S(24, 8), S(6, 2), S(0, 8), S(5, 1), S(2, 1), S(6, 4)]);
    v
}

fn shapes_gen() -> Vec<Shape> {
    let u = |s: u16, a: u16| Shape { size: s, align: a, uninit: true };
    vec![S(1, 1), S(4, 4), S(0, 1), S(3, 1), S(8, 8), S(12, 4), u(2, 2), u(8, 4)]
}

fn bounds(variants: usize, a1: usize, a: usize, r: usize, shapes: Vec<Shape>) -> Bounds {
    Bounds {
        variants,
        adds_first: a1,
        adds_later: a,
        removals: r,
        adds_by_level: None,
        removals_by_level: None,
        shapes,
        strategies: vec![0, 1, 2, 3],
        ghosts: false,
        ghosts_late: true,
        with_ranks: false,
        naming: Naming::Unique,
        prop: String::new(),
    }
}

/// Narrow and deep: few shapes, many additions in the first variant, then two and one.
fn narrow(adds: Vec<usize>, rems: Vec<usize>, shapes: Vec<Shape>) -> Bounds {
    let mut b = bounds(adds.len(), adds[0], 1, 1, shapes);
    b.adds_by_level = Some(adds);
    b.removals_by_level = Some(rems);
    b
}

fn passes(prop: &str, tier: Tier) -> Vec<Bounds> {
    // experiment hook: VERIF_HIST_BOUNDS="V,A1,A,R,8|14" replaces the passes by one
    if let Ok(spec) = std::env::var("VERIF_HIST_BOUNDS") {
        let f: Vec<&str> = spec.split(',').collect();
        if f.len() == 5 {
            let n = |i: usize| f[i].parse::<usize>().unwrap_or(1);
            let mut b = bounds(n(0), n(1), n(2), n(3), if f[4] == "14" { shapes14() } else { shapes8() });
            b.prop = if prop == "C12L" { "C12".to_owned() } else { prop.to_owned() };
            return vec![b];
        }
    }
    // experiment hook: VERIF_HIST_NARROW="6,3,1;0,0,0;1:1,8:8,2:2[;strategies]" = additions per step;
    // removals per step; shapes size:align; optional strategy indices
    if let Ok(spec) = std::env::var("VERIF_HIST_NARROW") {
        let parts: Vec<&str> = spec.split(';').collect();
        if parts.len() >= 3 {
            let nums = |s: &str| s.split(',').filter_map(|x| x.parse::<usize>().ok()).collect::<Vec<_>>();
            let shapes = parts[2]
                .split(',')
                .filter_map(|x| {
                    let mut it = x.split(':');
                    Some(S(it.next()?.parse().ok()?, it.next()?.parse().ok()?))
                })
                .collect();
            let mut b = narrow(nums(parts[0]), nums(parts[1]), shapes);
            if let Some(st) = parts.get(3) {
                b.strategies = nums(st).into_iter().map(|x| x as u8).collect();
            }
            b.prop = if prop == "C12L" { "C12".to_owned() } else { prop.to_owned() };
            return vec![b];
        }
    }
    let mut v = passes_inner(prop, tier);
    for b in &mut v {
        b.prop = if prop == "C12L" { "C12".to_owned() } else { prop.to_owned() };
    }
    v
}

fn passes_inner(prop: &str, tier: Tier) -> Vec<Bounds> {
    let q = tier == Tier::Quick;
    match prop {
        "C01" | "C02" | "C03" | "C12L" => {
            if q {
                let mut v = vec![bounds(3, 3, 1, 1, shapes8()), bounds(4, 2, 1, 1, shapes8()), bounds(2, 2, 2, 2, shapes14())];
                // data added and removed again before the close (at once / after the next addition)
                let mut g = bounds(4, 2, 1, 1, vec![S(1, 1), S(4, 4), S(0, 1), S(3, 1)]);
                g.ghosts = true;
                v.push(g);
                // narrow and deep: long first variants (wide gaps with misaligned starts), two
                // removals and two additions in the second step, one more step
                v.push(narrow(vec![5, 2, 1], vec![0, 2, 1], vec![S(1, 1), S(4, 4), S(12, 4)]));
                v.push(narrow(vec![3, 2, 1], vec![0, 1, 1], vec![S(1, 1), S(4, 4), S(6, 4), S(2, 2)]));
                // deeper still and narrower: six data in the first variant (three padding gaps under
                // the append strategies), three additions into them, one more close; no removals
                v.push(narrow(vec![6, 3, 1], vec![0, 0, 0], vec![S(1, 1), S(8, 8), S(2, 2)]));
                // four removals in one `basic` close (a removal path that only starts at four data)
                let mut four = narrow(vec![6, 1, 1], vec![0, 1, 4], vec![S(4, 4), S(1, 1)]);
                four.strategies = vec![1, 3];
                v.push(four);
                // an alignment beyond 256 (paddings that do not fit a byte)
                v.push(narrow(vec![3, 1, 1], vec![0, 1, 1], vec![S(512, 512), S(1, 1)]));
                if prop == "C01" || prop == "C02" {
                    // six data, then three removed and three added in one `simple` close (a wide hole
                    // split by an aligned datum, two exact fits in the holes behind it), then one more
                    // close: the smallest bound that reaches seed C01g
                    let mut b = narrow(if prop == "C01" { vec![6, 3, 1] } else { vec![6, 3] }, if prop == "C01" { vec![0, 3, 0] } else { vec![0, 3] }, vec![S(1, 1), S(3, 1), S(4, 4), S(6, 1), S(8, 8)]);
                    b.strategies = vec![0];
                    v.push(b);
                }
                v
            } else {
                // ordered by cost; the generated-text oracles run on the first three (gen_text())
                vec![
                    bounds(3, 3, 1, 1, shapes8()),
                    bounds(4, 2, 1, 1, shapes8()),
                    bounds(2, 2, 2, 2, shapes14()),
                    bounds(4, 3, 1, 1, shapes8()),
                    bounds(5, 2, 1, 1, shapes8()),
                    bounds(3, 3, 2, 1, shapes8()),
                    bounds(2, 4, 3, 2, shapes8()),
                    bounds(3, 2, 2, 1, shapes14()),
                    bounds(3, 3, 2, 2, shapes8()),
                    narrow(vec![5, 2, 1], vec![0, 2, 1], vec![S(1, 1), S(4, 4), S(12, 4)]),
                    narrow(vec![6, 2, 2], vec![0, 3, 1], vec![S(1, 1), S(4, 4), S(12, 4), S(2, 2)]),
                    narrow(vec![6, 3, 1], vec![0, 3, 1], vec![S(1, 1), S(3, 1), S(4, 4), S(6, 1), S(8, 8)]),
                ]
                .into_iter()
                .enumerate()
                .flat_map(|(i, b)| {
                    if i == 1 {
                        let mut g = bounds(4, 2, 1, 1, shapes8());
                        g.ghosts = true;
                        vec![b, g]
                    } else {
                        vec![b]
                    }
                })
                .collect()
            }
        }
        "C13" | "C19" => {
            // same size with different alignment (4/4 and 4/1, 0/1 and 0/4) must be in every alphabet:
            // the grouping of additions by size is where an ordering can become arbitrary
            let six = vec![S(1, 1), S(4, 4), S(4, 1), S(0, 4), Shape { size: 2, align: 2, uninit: true }];
            let mut v = match (prop, q) {
                ("C13", true) => vec![
                    // an aligned zero-size shape here (a zero-size datum can be "placed" where nothing fits), the
                    // unaligned one in the second pass
                    bounds(3, 2, 1, 1, vec![S(1, 1), S(4, 4), S(0, 4), S(3, 1), Shape { size: 2, align: 2, uninit: true }]),
                    bounds(2, 2, 2, 1, shapes_gen()),
                ],
                ("C13", false) => vec![
                    bounds(3, 3, 1, 1, shapes_gen()),
                    bounds(4, 2, 1, 1, shapes_gen()),
                    bounds(2, 3, 2, 2, shapes_gen()),
                ],
                // second pass: two removals in one step, zero-size data sharing an offset (several removed
                // data at one offset: an ordering of the removed data by offset alone is not total)
                (_, true) => vec![bounds(3, 2, 1, 1, six), bounds(2, 2, 2, 2, vec![S(0, 1), S(4, 4), S(0, 4), S(1, 1)])],
                (_, false) => vec![bounds(3, 2, 1, 1, shapes_gen()), bounds(2, 3, 2, 2, shapes_gen()), bounds(4, 2, 1, 1, six)],
            };
            for b in &mut v {
                b.ghosts = true;
                b.with_ranks = true;
                // determinism does not depend on when a ghost goes away: C19 keeps the plain ghost only
                b.ghosts_late = prop != "C19";
            }
            if prop == "C19" {
                // many additions in one step (a grouping that only starts at five data), two shapes of
                // one size under different type names; no cancelled additions in this pass
                let mut b = if q { narrow(vec![5], vec![0], vec![S(4, 4), S(4, 1), S(1, 1), S(2, 2)]) } else { narrow(vec![6, 1], vec![0, 1], vec![S(4, 4), S(4, 1), S(1, 1), S(2, 2)]) };
                b.with_ranks = true;
                v.push(b);
            }
            if prop == "C13" {
                // a size that is not a multiple of the alignment (only an override can record it)
                // followed in memory by less aligned data; no cancelled additions in this pass
                let odd = vec![S(1, 1), S(4, 4), S(6, 4), S(2, 2)];
                let mut b = if q { narrow(vec![3, 2], vec![0, 2], odd) } else { narrow(vec![3, 3, 1], vec![0, 2, 1], odd) };
                b.with_ranks = true;
                v.push(b);
            }
            v
        }
        "C20" => {
            let mut v = if q {
                vec![bounds(3, 3, 1, 1, vec![S(1, 1), S(4, 4), S(0, 1), S(3, 1), S(8, 8)]), bounds(3, 2, 2, 2, vec![S(1, 1), S(8, 8), S(2, 2), S(0, 4)])]
            } else {
                vec![bounds(3, 3, 2, 2, vec![S(1, 1), S(4, 4), S(0, 1), S(3, 1), S(8, 8)]), bounds(4, 2, 2, 1, vec![S(1, 1), S(8, 8), S(2, 2), S(0, 4)])]
            };
            for b in &mut v {
                b.with_ranks = true;
                b.naming = Naming::Reuse;
            }
            // orphan ids: data added and removed again before the close
            let mut g = bounds(3, 2, 1, 1, vec![S(1, 1), S(4, 4), S(0, 1), S(8, 8)]);
            g.ghosts = true;
            g.with_ranks = true;
            g.naming = Naming::Reuse;
            v.push(g);
            v
        }
        _ => vcommon::machinery_error("hist: unknown property"),
    }
}

fn oracle_for<'a>(prop: &'a str, naming: Naming, with_generate: bool) -> Box<Oracle<'a>> {
    match prop {
        "C01" => Box::new(|h, ex| oracles::c01(h, ex)),
        "C02" => Box::new(move |h, ex| oracles::c02(h, ex, with_generate)),
        "C03" => Box::new(move |h, ex| oracles::c03(h, ex, with_generate)),
        "C12L" => Box::new(|h, ex| oracles::c12_layout(h, ex)),
        "C13" => Box::new(|h, ex| oracles::c13(h, ex)),
        "C19" => Box::new(move |h, ex| oracles::c19(h, ex, naming)),
        "C20" => Box::new(|h, ex| oracles::c20(h, ex)),
        _ => unreachable!(),
    }
}

pub struct LayoutRun {
    pub states: u64,
    pub transitions: u64,
    pub complete: bool,
    pub passes: Vec<Value>,
    pub samples: Vec<Value>,
    pub violations: Vec<vcommon::Violation>,
    pub violating_transitions: u64,
    pub digest: u64,
}

pub fn run_layout(prop: &str, tier: Tier, threads: usize, cap: Option<Duration>) -> LayoutRun {
    let mut out = LayoutRun { states: 0, transitions: 0, complete: true, passes: vec![], samples: vec![], violations: vec![], violating_transitions: 0, digest: 0 };
    let start = Instant::now();
    let all = passes(prop, tier);
    let n = all.len();
    for (i, b) in all.into_iter().enumerate() {
        // generated-text oracles (C02/C03) are evaluated on every transition of the first pass
        // in quick mode and of the first three passes in thorough mode
        let with_generate = if tier == Tier::Thorough { i < 3 } else { i == 0 };
        let oracle = oracle_for(prop, b.naming, with_generate);
        let deadline = cap.map(|c| {
            // share what is left between the remaining passes
            let left = c.saturating_sub(start.elapsed());
            Instant::now() + left / (n - i) as u32
        });
        eprintln!("{} pass {}: {}", prop, i + 1, b.describe());
        let t0 = Instant::now();
        let e = explore(&b, &*oracle, deadline, threads);
        out.states += e.states;
        out.transitions += e.transitions;
        out.complete &= e.complete;
        out.violating_transitions += e.violating_transitions;
        out.digest ^= e.digest.rotate_left(i as u32);
        out.passes.push(json!({
            "bounds": b.describe(),
            "states": e.states, "transitions": e.transitions, "complete": e.complete,
            "max_live_data": e.max_live,
            "generated_text_oracle": with_generate,
            "levels": e.levels.iter().map(|l| json!({"level": l.level, "frontier": l.frontier, "transitions": l.transitions, "new_states": l.new_states, "violating": l.violating_transitions, "complete": l.complete})).collect::<Vec<_>>(),
            "wall_s": t0.elapsed().as_secs_f64(),
        }));
        out.samples.extend(e.samples);
        for (_, (_, v)) in e.violations {
            out.violations.push(v);
        }
    }
    out.samples.truncate(5);
    out
}

fn main() {
    let args = vcommon::parse_args();
    vcommon::quiet_panics();
    let threads = std::thread::available_parallelism().map(|n| n.get()).unwrap_or(4);
    let prop = args.property.clone();

    if let Some(path) = &args.replay {
        let doc = vcommon::read_replay(path);
        let code = match doc["case"]["space"].as_str() {
            Some("layout-history") => replay_layout(&prop, &doc["case"]),
            Some("request-history") => request::replay(&prop, &doc["case"]),
            Some("typed-history") => typed::replay(&prop, &doc["case"]),
            _ => vcommon::machinery_error("unknown replay space"),
        };
        std::process::exit(code);
    }

    match prop.as_str() {
        "C12" => request::main(&args, threads),
        "C18" => typed::main(&args, threads),
        "C19" if args.child.is_some() => {
            // second, separately started process of the cross-process comparison
            let r = run_layout("C19", args.tier, threads, Some(Duration::from_secs(1500)));
            println!("DIGEST {} {} {} {}", r.digest, r.states, r.transitions, r.complete);
            std::process::exit(0);
        }
        _ => {}
    }

    let cap = if args.tier == Tier::Thorough { Some(Duration::from_secs(2700)) } else { Some(Duration::from_secs(600)) };
    let mut report = Report::new("hist", &args, "model_checking");
    let (run, other) = if prop == "C19" {
        // two separately started processes explore the same space concurrently
        let exe = std::env::current_exe().unwrap();
        let child = std::process::Command::new(exe)
            .args(["C19", args.tier.as_str(), "--child", "digest"])
            .stdout(std::process::Stdio::piped())
            .stderr(std::process::Stdio::null())
            .spawn()
            .unwrap_or_else(|e| vcommon::machinery_error(&format!("spawn: {}", e)));
        let run = run_layout(&prop, args.tier, (threads / 2).max(1), cap);
        let o = child.wait_with_output().expect("child");
        let text = String::from_utf8_lossy(&o.stdout).to_string();
        let line = text.lines().find(|l| l.starts_with("DIGEST ")).map(str::to_owned);
        (run, line)
    } else {
        (run_layout(&prop, args.tier, threads, cap), None)
    };
    // every violation is replayed once more from its recorded history before it is reported; a
    // replay that does not reproduce the key is a machinery error, never a verdict
    for v in run.violations.clone() {
        // (not for C19: a difference between two runs is the violation itself, and it need not
        // show again on a third and fourth run)
        if prop != "C19" && v.case["steps"].as_array().map_or(false, |a| !a.is_empty()) {
            let h = history_from_json(&v.case);
            let naming = if prop == "C20" { Naming::Reuse } else { Naming::Unique };
            let oracle = oracle_for(&prop, naming, true);
            let again = std::panic::catch_unwind(std::panic::AssertUnwindSafe(|| {
                let ex = execute(&h, naming);
                oracle(&h, ex).0
            }));
            let reproduced = match again {
                Ok(vs) => vs.iter().any(|a| a.key == v.key),
                Err(_) => v.key.ends_with("/panic-while-observing"),
            };
            if !reproduced {
                // Is the code under test a function of the history at all? The same history executed
                // again and again on fresh builders of this thread - alone, and after each of its
                // own prefixes - must give the same lists and offsets every time (`execute` has no
                // choice of its own). If it does not, the code keeps state between calls, and what
                // the sweep saw is real although a file cannot replay it.
                let obs = |hh: &[Step]| {
                    std::panic::catch_unwind(std::panic::AssertUnwindSafe(|| {
                        let e = execute(hh, naming);
                        (e.variants.clone(), e.failure.clone())
                    }))
                    .ok()
                };
                let first = obs(&h);
                let mut differs = false;
                'probe: for _round in 0..3 {
                    for k in 0..=h.len() {
                        if k < h.len() {
                            let _ = obs(&h[..k]);
                        }
                        if obs(&h) != first {
                            differs = true;
                            break 'probe;
                        }
                    }
                }
                if !differs {
                    // the histories of the other violations of this run (and their prefixes) as
                    // predecessors: they are what ran next to this one in the sweep
                    let mut others: Vec<Vec<Step>> = run
                        .violations
                        .iter()
                        .filter(|o| o.case["steps"].as_array().map_or(false, |a| !a.is_empty()))
                        .take(200)
                        .map(|o| history_from_json(&o.case))
                        .collect();
                    // and a few histories that leave holes of several widths behind (alignment
                    // padding kept open by the append strategy, then one more close of each kind)
                    for (a, b) in [(1u16, 8u16), (2, 8), (3, 4), (1, 16), (5, 8)] {
                        for strat in 0..4u8 {
                            let st = |add: Vec<Shape>, strat: u8| Step { remove: vec![], ghost: None, ghost_late: false, add, strat };
                            others.push(vec![
                                st(vec![Shape::new(a, 1), Shape::new(b, b), Shape::new(a, 1), Shape::new(b, b)], 2),
                                st(vec![Shape::new(1, 1)], strat),
                            ]);
                        }
                    }
                    'probe2: for o in &others {
                        for k in 1..=o.len() {
                            let _ = obs(&o[..k]);
                            if obs(&h) != first {
                                differs = true;
                                break 'probe2;
                            }
                        }
                    }
                }
                if !differs {
                    vcommon::machinery_error(&format!("violation {} did not reproduce when its history was replayed", v.key));
                }
                let mut v2 = v.clone();
                v2.key = format!("{}/execution-depends-on-earlier-executions", v.key);
                v2.what = format!(
                    "{} [seen in the sweep and not reproduced by its history alone - but the same history, executed repeatedly on fresh builders of one thread, gives different lists / offsets: the code keeps state between calls]",
                    v.what
                );
                report.add(v2);
                continue;
            }
        }
        report.add(v);
    }
    report.violations_total = run.violating_transitions.max(report.violations_total);
    if prop == "C19" {
        let mine = format!("DIGEST {} {} {} {}", run.digest, run.states, run.transitions, run.complete);
        match other {
            Some(l) if l == mine => {
                report.cov("cross_process_digest_equal", true);
            }
            Some(l) => {
                if run.complete {
                    report.add(vcommon::Violation::new(
                        "C19/cross-process-digest-differs",
                        format!("two separately started processes exploring the same histories produced different offsets/text/code digests: `{}` vs `{}`", mine, l),
                        json!({"space": "layout-history", "steps": [], "note": "whole-exploration digest"}),
                    ));
                }
                report.cov("cross_process_digest_equal", false);
            }
            None => vcommon::machinery_error("second C19 process gave no digest"),
        }
    }
    report
        .cov("states", run.states)
        .cov("transitions", run.transitions)
        .cov("traces_validated_against_impl", run.transitions)
        .cov("samples", run.samples)
        .cov("exhaustive", run.complete)
        .cov("passes", run.passes)
        .cov("violating_transitions", run.violating_transitions)
        .cov("explanation", "breadth-first search over whole-variant steps of the real NativeRecordDefinitionBuilder; a state is the builder reached by a history (rebuilt by replay), merged on the (offset,size,align,flag[,id rank]) list of its last variant; every transition is executed on the real code and judged before merging; a state showing a violation is not expanded");
    report.assume("state merging: the shipped strategies read only the previous variant's list and the (offset, size, align) of its data; ids only through their relative order");
    report.assume("small scope: bounds as listed under passes; alignments are powers of two <= 16, sizes <= 24");
    report.assume("engine built with overflow-checks and debug-assertions on, like a user's build script");
    std::process::exit(report.finish());
}

fn replay_layout(prop: &str, case: &Value) -> i32 {
    let h = history_from_json(case);
    let naming = if prop == "C20" { Naming::Reuse } else { Naming::Unique };
    let p = if prop == "C12" { "C12L" } else { prop };
    let oracle = oracle_for(p, naming, true);
    let ex = execute(&h, naming);
    let (vs, _) = oracle(&h, ex);
    for v in &vs {
        println!("REPLAY-VIOLATION property={} key={} :: {}", prop, v.key, v.what);
    }
    if vs.is_empty() {
        println!("REPLAY-OK property={}", prop);
        0
    } else {
        1
    }
}
