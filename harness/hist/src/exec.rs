//! Execution of builder histories on the real `truc` builders (public API only).

use std::panic::{catch_unwind, AssertUnwindSafe};

use truc::record::{
    definition::{
        builder::native::{variant, DatumDefinitionOverride, NativeRecordDefinitionBuilder},
        DatumId, RecordVariantId,
    },
    type_resolver::HostTypeResolver,
};
use vcommon::{json, Value};

#[derive(Clone, Copy, PartialEq, Eq, Hash, Debug, PartialOrd, Ord)]
pub struct Shape {
    pub size: u16,
    pub align: u16,
    pub uninit: bool,
}

impl Shape {
    pub const fn new(size: u16, align: u16) -> Self {
        Shape {
            size,
            align,
            uninit: false,
        }
    }
    pub fn type_name(&self) -> String {
        format!("S{}A{}", self.size, self.align)
    }
    pub fn to_json(&self) -> Value {
        if self.uninit {
            json!([self.size, self.align, "may-be-uninit"])
        } else {
            json!([self.size, self.align])
        }
    }
    pub fn from_json(v: &Value) -> Self {
        Shape {
            size: v[0].as_u64().unwrap() as u16,
            align: v[1].as_u64().unwrap() as u16,
            uninit: v.get(2).is_some(),
        }
    }
}

pub const STRATEGIES: [&str; 4] = ["simple", "basic", "append_data", "append_data_reverse"];

/// One whole variant step: removals (positions in the previous variant's list), an optional ghost
/// (datum added and removed again before the close), additions in order, closing strategy.
#[derive(Clone, PartialEq, Eq, Hash, Debug, PartialOrd, Ord)]
pub struct Step {
    pub remove: Vec<u8>,
    pub ghost: Option<Shape>,
    /// the ghost is removed after the first addition of the step instead of at once (so that a
    /// datum with a higher id is already pending when it goes away)
    pub ghost_late: bool,
    pub add: Vec<Shape>,
    pub strat: u8,
}

impl Step {
    pub fn to_json(&self) -> Value {
        json!({
            "remove_positions": self.remove,
            "ghost": self.ghost.map(|g| g.to_json()),
            "ghost_removed_after_first_addition": self.ghost_late,
            "add": self.add.iter().map(Shape::to_json).collect::<Vec<_>>(),
            "close_with": STRATEGIES[self.strat as usize],
        })
    }
    pub fn from_json(v: &Value) -> Self {
        Step {
            remove: v["remove_positions"]
                .as_array()
                .map(|a| a.iter().map(|x| x.as_u64().unwrap() as u8).collect())
                .unwrap_or_default(),
            ghost: if v["ghost"].is_null() {
                None
            } else {
                Some(Shape::from_json(&v["ghost"]))
            },
            ghost_late: v["ghost_removed_after_first_addition"].as_bool().unwrap_or(false),
            add: v["add"]
                .as_array()
                .map(|a| a.iter().map(Shape::from_json).collect())
                .unwrap_or_default(),
            strat: STRATEGIES
                .iter()
                .position(|s| Some(*s) == v["close_with"].as_str())
                .unwrap_or(0) as u8,
        }
    }
    pub fn describe(&self) -> String {
        let mut s = format!("{}[", STRATEGIES[self.strat as usize]);
        for r in &self.remove {
            s.push_str(&format!("-@{} ", r));
        }
        if let Some(g) = self.ghost {
            s.push_str(&format!("ghost{}({},{}) ", if self.ghost_late { "-late" } else { "" }, g.size, g.align));
        }
        for a in &self.add {
            s.push_str(&format!(
                "+({},{}){} ",
                a.size,
                a.align,
                if a.uninit { "u" } else { "" }
            ));
        }
        s.push(']');
        s
    }
}

pub fn history_json(h: &[Step]) -> Value {
    json!({"space": "layout-history", "steps": h.iter().map(Step::to_json).collect::<Vec<_>>(),
           "text": h.iter().map(Step::describe).collect::<Vec<_>>().join(" ; ")})
}

pub fn history_from_json(v: &Value) -> Vec<Step> {
    v["steps"]
        .as_array()
        .map(|a| a.iter().map(Step::from_json).collect())
        .unwrap_or_default()
}

#[derive(Clone, Copy, PartialEq, Eq, Debug)]
pub struct DatumObs {
    pub id: DatumId,
    pub offset: usize,
    pub size: usize,
    pub align: usize,
    pub uninit: bool,
}

pub type Builder = NativeRecordDefinitionBuilder<HostTypeResolver>;

/// How names are given to data.
#[derive(Clone, Copy, PartialEq, Eq, Debug)]
pub enum Naming {
    /// `d<n>`, never re-used
    Unique,
    /// smallest free name of `f0, f1, ...` in the variant being built: a name freed by a removal is
    /// re-used by an addition of the same step
    Reuse,
}

pub struct Executed {
    pub builder: Builder,
    /// ids of the closed variants, as returned by the closes
    pub variant_ids: Vec<RecordVariantId>,
    /// list of each closed variant (read right after its close, in list order, with the details
    /// seen at that moment)
    pub variants: Vec<Vec<DatumObs>>,
    /// per step: ids removed / added / ghost
    pub removed: Vec<Vec<DatumId>>,
    pub added: Vec<Vec<DatumId>>,
    pub ghosts: Vec<DatumId>,
    /// C03(a): data whose offset was seen to change at a later close: (id, old, new, at step)
    pub moved: Vec<(DatumId, usize, usize, usize)>,
    /// panic message if a close (or a request that must be accepted) panicked or failed
    pub failure: Option<String>,
}

fn close(builder: &mut Builder, strat: u8) -> RecordVariantId {
    match strat {
        0 => builder.close_record_variant_with(variant::simple),
        1 => builder.close_record_variant_with(variant::basic),
        2 => builder.close_record_variant_with(variant::append_data),
        _ => builder.close_record_variant_with(variant::append_data_reverse),
    }
}

pub fn observe(builder: &Builder, id: DatumId) -> DatumObs {
    let d = &builder[id];
    DatumObs {
        id,
        offset: d.details().offset(),
        size: d.details().size(),
        align: d.details().type_align(),
        uninit: d.details().allow_uninit(),
    }
}

pub fn add_shape(builder: &mut Builder, name: String, s: Shape) -> Result<DatumId, String> {
    builder.add_datum_override::<(), _>(
        name,
        DatumDefinitionOverride {
            type_name: Some(s.type_name()),
            size: Some(s.size as usize),
            align: Some(s.align as usize),
            allow_uninit: Some(s.uninit),
        },
    )
}

/// Replays `history` on a fresh native builder.
pub fn execute(history: &[Step], naming: Naming) -> Executed {
    let mut ex = Executed {
        builder: NativeRecordDefinitionBuilder::new(HostTypeResolver),
        variant_ids: Vec::new(),
        variants: Vec::new(),
        removed: Vec::new(),
        added: Vec::new(),
        ghosts: Vec::new(),
        moved: Vec::new(),
        failure: None,
    };
    let mut counter = 0usize;
    // (id, offset) of every datum of every closed variant so far
    let mut known: Vec<(DatumId, usize)> = Vec::new();
    let mut live_names: Vec<(DatumId, String)> = Vec::new();
    for (si, step) in history.iter().enumerate() {
        let prev: Vec<DatumId> = ex
            .variants
            .last()
            .map(|v| v.iter().map(|d| d.id).collect())
            .unwrap_or_default();
        let mut removed = Vec::new();
        for &pos in &step.remove {
            let id = prev[pos as usize];
            if let Err(e) = ex.builder.remove_datum(id) {
                ex.failure = Some(format!("step {}: valid removal rejected: {}", si, e));
                return ex;
            }
            removed.push(id);
            live_names.retain(|(i, _)| *i != id);
        }
        let mut pending_ghost: Option<DatumId> = None;
        if let Some(g) = step.ghost {
            counter += 1;
            match add_shape(&mut ex.builder, format!("ghost{}", counter), g) {
                Ok(id) => {
                    ex.ghosts.push(id);
                    pending_ghost = Some(id);
                }
                Err(e) => {
                    ex.failure = Some(format!("step {}: valid addition rejected: {}", si, e));
                    return ex;
                }
            }
            if !step.ghost_late || step.add.is_empty() {
                if let Err(e) = ex.builder.remove_datum(pending_ghost.take().unwrap()) {
                    ex.failure = Some(format!("step {}: removal of pending datum rejected: {}", si, e));
                    return ex;
                }
            }
        }
        let mut added = Vec::new();
        for &s in &step.add {
            let name = match naming {
                Naming::Unique => {
                    counter += 1;
                    format!("d{}", counter)
                }
                Naming::Reuse => {
                    let mut k = 0;
                    loop {
                        let n = format!("f{}", k);
                        if !live_names.iter().any(|(_, x)| *x == n) {
                            break n;
                        }
                        k += 1;
                    }
                }
            };
            match add_shape(&mut ex.builder, name.clone(), s) {
                Ok(id) => {
                    added.push(id);
                    live_names.push((id, name));
                }
                Err(e) => {
                    ex.failure = Some(format!("step {}: valid addition rejected: {}", si, e));
                    return ex;
                }
            }
            if let Some(g) = pending_ghost.take() {
                if let Err(e) = ex.builder.remove_datum(g) {
                    ex.failure = Some(format!("step {}: removal of pending datum rejected: {}", si, e));
                    return ex;
                }
            }
        }
        let strat = step.strat;
        let res = catch_unwind(AssertUnwindSafe(|| close(&mut ex.builder, strat)));
        let vid = match res {
            Ok(v) => v,
            Err(p) => {
                ex.failure = Some(format!(
                    "step {}: close with {} panicked: {}",
                    si,
                    STRATEGIES[strat as usize],
                    vcommon::panic_message(&*p)
                ));
                ex.removed.push(removed);
                ex.added.push(added);
                return ex;
            }
        };
        // a step without any change after the first variant is a no-op close: not a new variant
        let is_noop = !ex.variants.is_empty()
            && step.remove.is_empty()
            && step.add.is_empty();
        if !is_noop {
            let list: Vec<DatumObs> = match catch_unwind(AssertUnwindSafe(|| {
                ex.builder[vid]
                    .data()
                    .map(|id| observe(&ex.builder, id))
                    .collect::<Vec<_>>()
            })) {
                Ok(l) => l,
                Err(p) => {
                    ex.failure = Some(format!(
                        "step {}: closed variant {} cannot be read back: {}",
                        si,
                        vid,
                        vcommon::panic_message(&*p)
                    ));
                    return ex;
                }
            };
            // C03(a): nothing known may have moved
            for (id, off) in &known {
                let now = ex.builder[*id].details().offset();
                if now != *off {
                    ex.moved.push((*id, *off, now, si));
                }
            }
            for d in &list {
                if !known.iter().any(|(i, _)| *i == d.id) {
                    known.push((d.id, d.offset));
                }
            }
            ex.variant_ids.push(vid);
            ex.variants.push(list);
        }
        ex.removed.push(removed);
        ex.added.push(added);
    }
    ex
}
