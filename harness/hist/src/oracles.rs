//! Oracles of the layout-mode exploration, one per property. Each judges a transition executed on
//! the real builder; all observations go through public API.

use std::{
    collections::{BTreeMap, BTreeSet},
    hash::{Hash, Hasher},
    panic::{catch_unwind, AssertUnwindSafe},
};

use truc::{
    generator::{
        config::GeneratorConfig,
        fragment::{clone::CloneImplGenerator, serde::SerdeImplGenerator, FragmentGenerator},
        generate,
    },
    record::{
        definition::{
            builder::{
                generic::{variant as gvariant, GenericRecordDefinitionBuilder},
                native::{variant, NativeRecordDefinitionBuilder},
            },
            convert::convert_record_definition,
            DatumId, NativeDatumDetails, RecordDefinition, RecordVariantId,
        },
        type_resolver::{HostTypeResolver, TypeInfo},
    },
};
use vcommon::{Violation};

use crate::exec::*;

pub type Def = RecordDefinition<NativeDatumDetails>;

pub fn hash64<T: Hash>(t: &T) -> u64 {
    #[allow(deprecated)]
    let mut h = std::hash::SipHasher::new();
    t.hash(&mut h);
    h.finish()
}

pub const CONFIGS: [&str; 4] = ["default", "clone", "serde", "clone+serde"];

pub fn config(i: usize) -> GeneratorConfig {
    let mut custom: Vec<Box<dyn FragmentGenerator>> = Vec::new();
    if i & 1 == 1 {
        custom.push(Box::new(CloneImplGenerator));
    }
    if i & 2 == 2 {
        custom.push(Box::new(SerdeImplGenerator));
    }
    GeneratorConfig::default_with_custom_generators(custom)
}

fn build(ex: Executed) -> Result<Def, String> {
    catch_unwind(AssertUnwindSafe(move || ex.builder.build()))
        .map_err(|p| vcommon::panic_message(&*p))
}

fn last_strat(h: &[Step]) -> &'static str {
    h.last().map(|s| STRATEGIES[s.strat as usize]).unwrap_or("-")
}

fn current(ex: &Executed) -> Vec<Vec<DatumObs>> {
    ex.variants
        .iter()
        .map(|v| v.iter().map(|d| observe(&ex.builder, d.id)).collect())
        .collect()
}

fn overlap_of(list: &[DatumObs]) -> Option<(DatumObs, DatumObs)> {
    for i in 0..list.len() {
        for j in (i + 1)..list.len() {
            let (a, b) = (list[i], list[j]);
            if a.size == 0 || b.size == 0 {
                continue;
            }
            if a.offset < b.offset + b.size && b.offset < a.offset + a.size {
                return Some((a, b));
            }
        }
    }
    None
}

fn def_variants(def: &Def) -> Vec<Vec<DatumObs>> {
    def.variants()
        .map(|v| {
            v.data()
                .map(|id| {
                    let d = &def[id];
                    DatumObs {
                        id,
                        offset: d.details().offset(),
                        size: d.details().size(),
                        align: d.details().type_align(),
                        uninit: d.details().allow_uninit(),
                    }
                })
                .collect()
        })
        .collect()
}

// ---------------------------------------------------------------------------------------

pub fn c01(h: &[Step], ex: Executed) -> (Vec<Violation>, u64) {
    let mut out = vec![];
    if ex.failure.is_some() {
        return (out, 0);
    }
    let case = history_json(h);
    for (vi, list) in current(&ex).iter().enumerate() {
        if let Some((a, b)) = overlap_of(list) {
            out.push(Violation::new(
                format!("C01/overlap/closed-with-{}", last_strat(h)),
                format!(
                    "variant {}: datum #{} [{}, {}) and datum #{} [{}, {}) share bytes (history: {})",
                    vi, a.id, a.offset, a.offset + a.size, b.id, b.offset, b.offset + b.size,
                    h.iter().map(Step::describe).collect::<Vec<_>>().join(" ; ")
                ),
                case.clone(),
            ));
            return (out, 0);
        }
    }
    if let Ok(def) = build(ex) {
        for (vi, list) in def_variants(&def).iter().enumerate() {
            if let Some((a, b)) = overlap_of(list) {
                out.push(Violation::new(
                    format!("C01/overlap/built/closed-with-{}", last_strat(h)),
                    format!("built definition, variant {}: data #{} and #{} share bytes", vi, a.id, b.id),
                    case.clone(),
                ));
                break;
            }
        }
    }
    (out, 0)
}

fn parse_generated(text: &str) -> (Vec<usize>, Vec<usize>) {
    let mut max_sizes = vec![];
    let mut aligns = vec![];
    for line in text.lines() {
        let l = line.trim();
        if let Some(r) = l.strip_prefix("pub const MAX_SIZE: usize = ") {
            if let Ok(n) = r.trim_end_matches(';').trim().parse() {
                max_sizes.push(n);
            }
        }
        if let Some(r) = l.strip_prefix("#[repr(align(") {
            if let Ok(n) = r.trim_end_matches("))]").trim().parse() {
                aligns.push(n);
            }
        }
    }
    (max_sizes, aligns)
}

pub fn c02(h: &[Step], ex: Executed, with_generate: bool) -> (Vec<Violation>, u64) {
    let mut out = vec![];
    if ex.failure.is_some() {
        return (out, 0);
    }
    let case = history_json(h);
    let text = h.iter().map(Step::describe).collect::<Vec<_>>().join(" ; ");
    let cur = current(&ex);
    for (vi, list) in cur.iter().enumerate() {
        for d in list {
            if d.align == 0 || d.offset % d.align != 0 {
                out.push(Violation::new(
                    format!("C02/misaligned/closed-with-{}", last_strat(h)),
                    format!("variant {}: datum #{} at offset {} is not a multiple of its alignment {} ({})", vi, d.id, d.offset, d.align, text),
                    case.clone(),
                ));
                return (out, 0);
            }
        }
        let nz: Vec<&DatumObs> = list.iter().filter(|d| d.size > 0).collect();
        for w in nz.windows(2) {
            if w[0].offset >= w[1].offset {
                out.push(Violation::new(
                    format!("C02/address-order/closed-with-{}", last_strat(h)),
                    format!("variant {}: datum #{} at {} is listed before datum #{} at {} ({})", vi, w[0].id, w[0].offset, w[1].id, w[1].offset, text),
                    case.clone(),
                ));
                return (out, 0);
            }
        }
    }
    let def = match build(ex) {
        Ok(d) => d,
        Err(_) => return (out, 0),
    };
    // capacity / alignment panics are C13's verdict
    let cap = catch_unwind(AssertUnwindSafe(|| (def.max_size(), def.max_type_align())));
    let (max_size, max_align) = match cap {
        Ok(x) => x,
        Err(_) => return (out, 0),
    };
    for (vi, list) in def_variants(&def).iter().enumerate() {
        for d in list {
            if d.offset + d.size > max_size {
                out.push(Violation::new(
                    "C02/beyond-capacity",
                    format!("variant {}: datum #{} occupies [{}, {}) but the published capacity is {} ({})", vi, d.id, d.offset, d.offset + d.size, max_size, text),
                    case.clone(),
                ));
                return (out, 0);
            }
            if d.align == 0 || max_align % d.align != 0 {
                out.push(Violation::new(
                    "C02/record-alignment",
                    format!("variant {}: record alignment {} is not a multiple of datum #{}'s alignment {} ({})", vi, max_align, d.id, d.align, text),
                    case.clone(),
                ));
                return (out, 0);
            }
        }
    }
    if with_generate {
        if let Ok(code) = catch_unwind(AssertUnwindSafe(|| generate(&def, &GeneratorConfig::default()))) {
            let (ms, als) = parse_generated(&code);
            // only what could be parsed is judged (a change of formatting must not raise an alarm)
            if !ms.is_empty() && ms.iter().any(|m| *m != max_size) {
                out.push(Violation::new(
                    "C02/generated-capacity",
                    format!("generated MAX_SIZE {:?} differs from the definition's capacity {} ({})", ms, max_size, text),
                    case.clone(),
                ));
            } else if als.iter().any(|a| *a != max_align) {
                out.push(Violation::new(
                    "C02/generated-alignment",
                    format!("generated repr(align) attributes {:?}, the definition's alignment is {} ({})", als, max_align, text),
                    case.clone(),
                ));
            } else {
                // every generated record type must be at least as aligned as each of its data
                for list in def_variants(&def) {
                    for d in list {
                        if als.iter().any(|a| a % d.align != 0) {
                            out.push(Violation::new("C02/generated-alignment", format!("generated alignment {:?} not a multiple of {} ({})", als, d.align, text), case.clone()));
                            return (out, 0);
                        }
                    }
                }
            }
        }
    }
    (out, 0)
}

pub fn c03(h: &[Step], ex: Executed, with_generate: bool) -> (Vec<Violation>, u64) {
    let mut out = vec![];
    if ex.failure.is_some() {
        return (out, 0);
    }
    let case = history_json(h);
    let text = h.iter().map(Step::describe).collect::<Vec<_>>().join(" ; ");
    if let Some((id, old, new, step)) = ex.moved.first() {
        out.push(Violation::new(
            format!("C03/moved/closed-with-{}", last_strat(h)),
            format!("datum #{} was at offset {} when its variant was closed and is at {} after step {} ({})", id, old, new, step, text),
            case,
        ));
        return (out, 0);
    }
    let at_close = ex.variants.clone();
    let now = current(&ex);
    for (vi, (a, b)) in at_close.iter().zip(now.iter()).enumerate() {
        for (x, y) in a.iter().zip(b.iter()) {
            if x.offset != y.offset || x.size != y.size || x.align != y.align {
                out.push(Violation::new(
                    format!("C03/moved/closed-with-{}", last_strat(h)),
                    format!("variant {}: datum #{} changed from offset {} to {} ({})", vi, x.id, x.offset, y.offset, text),
                    case,
                ));
                return (out, 0);
            }
        }
    }
    if let Ok(def) = build(ex) {
        let dv = def_variants(&def);
        if dv.len() != at_close.len() {
            out.push(Violation::new("C03/built-variants", format!("built definition has {} variants, {} were closed ({})", dv.len(), at_close.len(), text), case));
            return (out, 0);
        }
        for (vi, (a, b)) in at_close.iter().zip(dv.iter()).enumerate() {
            if a.len() != b.len() || a.iter().zip(b.iter()).any(|(x, y)| x.id != y.id || x.offset != y.offset) {
                out.push(Violation::new("C03/moved/built", format!("variant {} differs between its close and the built definition ({})", vi, text), case));
                return (out, 0);
            }
        }
        if with_generate {
            // one alignment attribute value and one capacity constant for all record types
            if let Ok(code) = catch_unwind(AssertUnwindSafe(|| generate(&def, &GeneratorConfig::default()))) {
                let (ms, als) = parse_generated(&code);
                let distinct: BTreeSet<usize> = als.iter().copied().collect();
                let ms_distinct: BTreeSet<usize> = ms.iter().copied().collect();
                if ms_distinct.len() > 1 || distinct.len() > 1 {
                    out.push(Violation::new(
                        "C03/generated-size-or-alignment-differs",
                        format!("generated record types do not share one capacity and one alignment: MAX_SIZE {:?}, repr(align) {:?} ({})", ms, als, text),
                        case,
                    ));
                }
            }
        }
    }
    (out, 0)
}

/// Membership oracle of C12 evaluated in layout mode (shapes vary).
pub fn c12_layout(h: &[Step], ex: Executed) -> (Vec<Violation>, u64) {
    let mut out = vec![];
    let case = history_json(h);
    let text = h.iter().map(Step::describe).collect::<Vec<_>>().join(" ; ");
    if let Some(f) = &ex.failure {
        out.push(Violation::new(
            format!("C12/valid-request-failed/closed-with-{}", last_strat(h)),
            format!("a valid request sequence failed, the closed variant does not exist: {} ({})", f, text),
            case,
        ));
        return (out, 0);
    }
    let mut all_ids = BTreeSet::new();
    for a in ex.added.iter().flatten().chain(ex.ghosts.iter()) {
        if !all_ids.insert(*a) {
            out.push(Violation::new("C12/id-reused", format!("datum id {} issued twice ({})", a, text), case));
            return (out, 0);
        }
    }
    let mut prev: BTreeSet<DatumId> = BTreeSet::new();
    let mut vi = 0;
    for (si, step) in h.iter().enumerate() {
        let noop = si > 0 && step.remove.is_empty() && step.add.is_empty();
        if noop {
            continue;
        }
        let mut want = prev.clone();
        for r in &ex.removed[si] {
            want.remove(r);
        }
        for a in &ex.added[si] {
            want.insert(*a);
        }
        let list = &ex.variants[vi];
        let got: BTreeSet<DatumId> = list.iter().map(|d| d.id).collect();
        if got != want || got.len() != list.len() {
            out.push(Violation::new(
                format!("C12/membership/closed-with-{}", STRATEGIES[step.strat as usize]),
                format!("variant {} holds {:?}, expected previous - removed + added = {:?} ({})", vi, list.iter().map(|d| d.id).collect::<Vec<_>>(), want, text),
                case,
            ));
            return (out, 0);
        }
        prev = want;
        vi += 1;
    }
    (out, 0)
}

pub struct Rendered {
    pub display: String,
    pub max_size: usize,
    pub max_align: usize,
    pub generated: Vec<String>,
}

/// `all_configs = false`: only the bare selection and the one with every optional fragment (every
/// fragment's text is in one of the two).
pub fn render(def: &Def) -> Result<Rendered, (String, String)> {
    render_with(def, true)
}

pub fn render_with(def: &Def, all_configs: bool) -> Result<Rendered, (String, String)> {
    let display = catch_unwind(AssertUnwindSafe(|| def.to_string()))
        .map_err(|p| ("display-panic".to_owned(), vcommon::panic_message(&*p)))?;
    let max_size = catch_unwind(AssertUnwindSafe(|| def.max_size()))
        .map_err(|p| ("capacity-panic".to_owned(), vcommon::panic_message(&*p)))?;
    let max_align = catch_unwind(AssertUnwindSafe(|| def.max_type_align()))
        .map_err(|p| ("alignment-panic".to_owned(), vcommon::panic_message(&*p)))?;
    let mut generated = vec![];
    for (i, name) in CONFIGS.iter().enumerate() {
        if !all_configs && i != 0 && i != 3 {
            generated.push(String::new());
            continue;
        }
        let g = catch_unwind(AssertUnwindSafe(|| generate(def, &config(i))))
            .map_err(|p| (format!("generate-panic/{}", name), vcommon::panic_message(&*p)))?;
        generated.push(g);
    }
    Ok(Rendered {
        display,
        max_size,
        max_align,
        generated,
    })
}

pub fn c13(h: &[Step], ex: Executed) -> (Vec<Violation>, u64) {
    let mut out = vec![];
    if ex.failure.is_some() {
        return (out, 0);
    }
    let case = history_json(h);
    let text = h.iter().map(Step::describe).collect::<Vec<_>>().join(" ; ");
    let has_ghost = !ex.ghosts.is_empty();
    let def = match build(ex) {
        Ok(d) => d,
        Err(e) => {
            out.push(Violation::new("C13/build-panic", format!("build() panicked on a fully closed definition: {} ({})", e, text), case));
            return (out, 0);
        }
    };
    // each observation separately, so that every panicking entry point is named
    let mut fails: Vec<(String, String)> = vec![];
    if let Err(p) = catch_unwind(AssertUnwindSafe(|| def.to_string())) {
        fails.push(("display-panic".into(), vcommon::panic_message(&*p)));
    }
    if let Err(p) = catch_unwind(AssertUnwindSafe(|| def.max_size())) {
        fails.push(("capacity-panic".into(), vcommon::panic_message(&*p)));
    }
    if let Err(p) = catch_unwind(AssertUnwindSafe(|| def.max_type_align())) {
        fails.push(("alignment-panic".into(), vcommon::panic_message(&*p)));
    }
    for (i, name) in CONFIGS.iter().enumerate() {
        if let Err(p) = catch_unwind(AssertUnwindSafe(|| generate(&def, &config(i)))) {
            fails.push((format!("generate-panic/{}", name), vcommon::panic_message(&*p)));
        }
    }
    for (k, msg) in fails {
        out.push(Violation::new(
            format!("C13/{}{}", k, if has_ghost { "/with-ghost-datum" } else { "" }),
            format!("{}: {} ({})", k, msg, text),
            case.clone(),
        ));
    }
    (out, 0)
}

pub fn c19(h: &[Step], ex: Executed, naming: Naming) -> (Vec<Violation>, u64) {
    let mut out = vec![];
    if ex.failure.is_some() {
        return (out, 0);
    }
    let case = history_json(h);
    let text = h.iter().map(Step::describe).collect::<Vec<_>>().join(" ; ");
    let lists1: Vec<Vec<(usize, usize)>> = current(&ex)
        .iter()
        .map(|v| v.iter().map(|d| (usize::from_str_radix(&d.id.to_string(), 10).unwrap_or(0), d.offset)).collect())
        .collect();
    let r1 = build(ex).ok().and_then(|d| render_with(&d, false).ok());
    let ex2 = execute(h, naming);
    if ex2.failure.is_some() {
        out.push(Violation::new("C19/second-run-failed", format!("the second replay of the same history failed ({})", text), case));
        return (out, 0);
    }
    let lists2: Vec<Vec<(usize, usize)>> = current(&ex2)
        .iter()
        .map(|v| v.iter().map(|d| (usize::from_str_radix(&d.id.to_string(), 10).unwrap_or(0), d.offset)).collect())
        .collect();
    if lists1 != lists2 {
        out.push(Violation::new("C19/offsets-differ", format!("two replays of the same history gave different lists/offsets: {:?} vs {:?} ({})", lists1, lists2, text), case));
        return (out, 0);
    }
    let r2 = build(ex2).ok().and_then(|d| render_with(&d, false).ok());
    let mut digest = hash64(&(h, &lists1));
    match (r1, r2) {
        (Some(a), Some(b)) => {
            if a.display != b.display {
                out.push(Violation::new("C19/display-differs", format!("two replays rendered different text ({})", text), case));
            } else if a.generated != b.generated {
                let which = (0..4).find(|i| a.generated[*i] != b.generated[*i]).unwrap();
                out.push(Violation::new(format!("C19/generated-code-differs/{}", CONFIGS[which]), format!("two replays generated different code ({})", text), case));
            }
            digest ^= hash64(&(h, &a.display, &a.generated, a.max_size, a.max_align));
        }
        (None, None) => {}
        _ => {
            out.push(Violation::new("C19/one-run-panicked", format!("one of two replays panicked while rendering ({})", text), case));
        }
    }
    (out, digest)
}

type Sig = (String, String, usize, usize, bool);

pub fn c20(h: &[Step], ex: Executed) -> (Vec<Violation>, u64) {
    let out_cell = std::cell::RefCell::new(Vec::<Violation>::new());
    if ex.failure.is_some() {
        return (vec![], 0);
    }
    let case = history_json(h);
    let text = h.iter().map(Step::describe).collect::<Vec<_>>().join(" ; ");
    let src = match build(ex) {
        Ok(d) => d,
        Err(_) => return (vec![], 0),
    };
    let src_variants: Vec<(RecordVariantId, Vec<DatumId>)> =
        src.variants().map(|v| (v.id(), v.data().collect())).collect();
    let sig_src = |id: DatumId| -> Sig {
        let d = &src[id];
        (
            d.name().to_owned(),
            d.details().type_name().to_owned(),
            d.details().size(),
            d.details().type_align(),
            d.details().allow_uninit(),
        )
    };

    // judge one replay given the map and accessors on the target
    let judge = |target: &str,
                     res: Result<BTreeMap<RecordVariantId, RecordVariantId>, String>,
                     tgt_variants: &dyn Fn(RecordVariantId) -> Option<Vec<(DatumId, Sig)>>,
                     tgt_count: usize| {
        let key = |k: &str| format!("C20/{}/{}", k, target);
        let map = match res {
            Ok(m) => m,
            Err(e) => {
                out_cell.borrow_mut().push(Violation::new(key("replay-rejected"), format!("replaying a valid definition into a {} builder failed: {} ({})", target, e, text), case.clone()));
                return;
            }
        };
        if map.len() != src_variants.len() || src_variants.iter().any(|(id, _)| !map.contains_key(id)) {
            out_cell.borrow_mut().push(Violation::new(key("map-keys"), format!("variant map {:?} does not have one entry per source variant ({})", map, text), case.clone()));
            return;
        }
        let targets: BTreeSet<_> = map.values().copied().collect();
        if targets.len() != map.len() || tgt_count != src_variants.len() {
            out_cell.borrow_mut().push(Violation::new(key("variant-count"), format!("{} source variants were replayed into {} target variants, map {:?} ({})", src_variants.len(), tgt_count, map, text), case.clone()));
            return;
        }
        let mut corr: BTreeMap<DatumId, DatumId> = BTreeMap::new();
        let mut back: BTreeMap<DatumId, DatumId> = BTreeMap::new();
        for (svid, sdata) in &src_variants {
            let tv = match tgt_variants(map[svid]) {
                Some(v) => v,
                None => {
                    out_cell.borrow_mut().push(Violation::new(key("target-variant-missing"), format!("mapped target variant {} does not exist ({})", map[svid], text), case.clone()));
                    return;
                }
            };
            let mut a: Vec<Sig> = sdata.iter().map(|d| sig_src(*d)).collect();
            let mut b: Vec<Sig> = tv.iter().map(|(_, s)| s.clone()).collect();
            a.sort();
            b.sort();
            if a != b {
                out_cell.borrow_mut().push(Violation::new(key("variant-content"), format!("source variant {} holds {:?}, its target variant {} holds {:?} ({})", svid, a, map[svid], b, text), case.clone()));
                return;
            }
            for d in sdata {
                let name = &src[*d].name().to_owned();
                let t = tv.iter().find(|(_, s)| &s.0 == name).map(|(id, _)| *id).unwrap();
                if let Some(prev) = corr.insert(*d, t) {
                    if prev != t {
                        out_cell.borrow_mut().push(Violation::new(key("datum-split"), format!("source datum #{} ({}) corresponds to target datum #{} in one variant and #{} in another ({})", d, name, prev, t, text), case.clone()));
                        return;
                    }
                }
                if let Some(prev) = back.insert(t, *d) {
                    if prev != *d {
                        out_cell.borrow_mut().push(Violation::new(key("datum-merged"), format!("source data #{} and #{} both correspond to target datum #{} ({})", prev, d, t, text), case.clone()));
                        return;
                    }
                }
            }
        }
    };

    for strat in 0..4u8 {
        let mut tb = NativeRecordDefinitionBuilder::new(HostTypeResolver);
        let res = catch_unwind(AssertUnwindSafe(|| {
            convert_record_definition(
                &src,
                |b: &mut NativeRecordDefinitionBuilder<HostTypeResolver>, d| b.copy_datum(d),
                |b, id| b.remove_datum(id),
                |b| match strat {
                    0 => b.close_record_variant_with(variant::simple),
                    1 => b.close_record_variant_with(variant::basic),
                    2 => b.close_record_variant_with(variant::append_data),
                    _ => b.close_record_variant_with(variant::append_data_reverse),
                },
                &mut tb,
            )
        }))
        .unwrap_or_else(|p| Err(format!("panic: {}", vcommon::panic_message(&*p))));
        let tdef = match catch_unwind(AssertUnwindSafe(move || tb.build())) {
            Ok(d) => d,
            Err(p) => {
                if res.is_ok() {
                    out_cell.borrow_mut().push(Violation::new(format!("C20/target-build-panic/native-{}", STRATEGIES[strat as usize]), format!("target builder cannot be built: {} ({})", vcommon::panic_message(&*p), text), case.clone()));
                    continue;
                }
                judge(&format!("native-{}", STRATEGIES[strat as usize]), res, &|_| None, 0);
                continue;
            }
        };
        let count = tdef.variants().count();
        judge(
            &format!("native-{}", STRATEGIES[strat as usize]),
            res,
            &|vid| {
                tdef.get_variant(vid).map(|v| {
                    v.data()
                        .map(|id| {
                            let d = &tdef[id];
                            (id, (d.name().to_owned(), d.details().type_name().to_owned(), d.details().size(), d.details().type_align(), d.details().allow_uninit()))
                        })
                        .collect()
                })
            },
            count,
        );
    }
    for g in 0..2 {
        let mut tb: GenericRecordDefinitionBuilder<(TypeInfo, bool)> = GenericRecordDefinitionBuilder::new();
        let res = catch_unwind(AssertUnwindSafe(|| {
            convert_record_definition(
                &src,
                |b: &mut GenericRecordDefinitionBuilder<(TypeInfo, bool)>, d| {
                    b.add_datum(d.name(), (d.details().type_info().clone(), d.details().allow_uninit()))
                },
                |b, id| b.remove_datum(id),
                |b| {
                    if g == 0 {
                        b.close_record_variant_with(gvariant::append_data)
                    } else {
                        b.close_record_variant_with(gvariant::append_data_reverse)
                    }
                },
                &mut tb,
            )
        }))
        .unwrap_or_else(|p| Err(format!("panic: {}", vcommon::panic_message(&*p))));
        let name = if g == 0 { "generic-append_data" } else { "generic-append_data_reverse" };
        let tdef = match catch_unwind(AssertUnwindSafe(move || tb.build())) {
            Ok(d) => d,
            Err(_) => {
                judge(name, res, &|_| None, 0);
                continue;
            }
        };
        let count = tdef.variants().count();
        judge(
            name,
            res,
            &|vid| {
                tdef.get_variant(vid).map(|v| {
                    v.data()
                        .map(|id| {
                            let d = &tdef[id];
                            (id, (d.name().to_owned(), d.details().0.name.clone(), d.details().0.size, d.details().0.align, d.details().1))
                        })
                        .collect()
                })
            },
            count,
        );
    }
    let mut out = out_cell.into_inner();
    let mut seen = BTreeSet::new();
    out.retain(|v| seen.insert(v.key.clone()));
    (out, 0)
}
