// One shard of engine B's definition family: the generated modules and their glue.
#[macro_use]
extern crate static_assertions;
extern crate alloc;

include!(concat!(env!("OUT_DIR"), "/glue.rs"));
