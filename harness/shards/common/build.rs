// Shared build script of the shard crates: generates (through the real truc builder and the real
// generate()) the modules of this shard's share of the definition family, plus their glue.
use std::{env, fmt::Write as _, fs, path::PathBuf};

fn main() {
    let out = PathBuf::from(env::var("OUT_DIR").unwrap());
    let pkg = env::var("CARGO_PKG_NAME").unwrap();
    println!("cargo:rerun-if-env-changed=VERIF_FAMILY");
    // "shardm" holds the whole reduced family that is also interpreted by Miri
    let (shard, of, tier): (usize, usize, String) = if pkg == "shardm" {
        (0, 1, "miri".to_owned())
    } else {
        (pkg.trim_start_matches("shard").parse().unwrap(), 16, env::var("VERIF_FAMILY").unwrap_or_else(|_| "quick".to_owned()))
    };
    let family = defgen::family(&tier);
    let mut glue = String::new();
    let mut registry = String::from("pub fn registry() -> Vec<reccore::DefEntry> {\n    vec![\n");
    for (idx, spec) in family.iter().enumerate() {
        if idx % of != shard {
            continue;
        }
        let built = defgen::build(spec);
        let code = defgen::generate_module(&built.def, true, true);
        let gen_file = format!("d{}_gen.rs", idx);
        fs::write(out.join(&gen_file), &code).unwrap();
        let module = format!("d{}", idx);
        glue.push_str(&defgen::emit_glue(spec, &built, &module, &gen_file, &code));
        // MAX_SIZE and MAX_SIZE + 1 (odd strides in vectors) always; MAX_SIZE + 5 in the thorough family only
        let third = if tier == "thorough" { format!("Some({m}::instantiate::<{{ {m}::gen::MAX_SIZE + 5 }}>)", m = module) } else { "None".to_owned() };
        writeln!(
            registry,
            "        reccore::DefEntry {{ name: {:?}, max_size: {m}::max_size, instantiate: [Some({m}::instantiate::<{{ {m}::gen::MAX_SIZE }}>), Some({m}::instantiate::<{{ {m}::gen::MAX_SIZE + 1 }}>), {third}] }},",
            spec.name,
            m = module,
            third = third
        )
        .unwrap();
    }
    registry.push_str("    ]\n}\n");
    glue.push_str(&registry);
    fs::write(out.join("glue.rs"), glue).unwrap();
}
