//! "Types of the user's crates" for the compiler-as-oracle probes (C14, C17).

use std::{cell::Cell, marker::PhantomData, rc::Rc};

#[derive(Clone, Copy, Debug, Default, PartialEq)]
pub struct Plain(pub u32);

pub mod inner {
    #[derive(Clone, Debug, Default, PartialEq)]
    pub struct Deep(pub u8);

    pub mod more {
        #[derive(Clone, Debug, Default, PartialEq)]
        pub struct Deeper(pub u16);
    }
}

#[derive(Clone, Debug, Default, PartialEq)]
pub struct Wrap<T>(pub T);

/// User types that carry the name of a standard type, in modules named like the standard ones.
pub mod string {
    #[derive(Clone, Debug, Default, PartialEq)]
    pub struct String(pub u16);
}
pub mod result {
    #[derive(Clone, Debug, Default, PartialEq)]
    pub struct Result<T, E>(pub T, pub E);
}
pub mod option {
    #[derive(Clone, Debug, Default, PartialEq)]
    pub struct Option<T>(pub T, pub u8);
}
pub mod vec {
    #[derive(Clone, Debug, Default, PartialEq)]
    pub struct Vec(pub [u8; 3]);
}

#[derive(Clone, Debug, Default, PartialEq)]
pub struct Pair<A, B>(pub A, pub B);

// ---- auto-trait menu ----------------------------------------------------------------------

/// Send + Sync
#[derive(Default)]
pub struct Both(pub u32);
/// Send, !Sync
#[derive(Default)]
pub struct SendOnly(pub Cell<u8>);
/// Send, !Sync (nested)
#[derive(Default)]
pub struct SendOnlyWrapped(pub Wrap<Cell<u16>>);
/// !Send, Sync
pub struct SyncOnly(pub PhantomData<*const u8>, pub u8);
unsafe impl Sync for SyncOnly {}
/// !Send, !Sync
pub struct Neither(pub Rc<u8>);
/// !Send, !Sync (nested)
pub struct NeitherWrapped(pub Wrap<Rc<u8>>);
/// raw pointer: !Send, !Sync
pub struct RawPtr(pub *const u8);

// ---- the same menu with `Copy` types (data that may stay uninitialised must be `Copy`) ------

/// Send + Sync, Copy
#[derive(Clone, Copy, Default)]
pub struct BothCopy(pub u32);
/// Send, !Sync, Copy
#[derive(Clone, Copy, Default)]
pub struct SendOnlyCopy(pub u8, pub PhantomData<Cell<u8>>);
/// !Send, Sync, Copy
#[derive(Clone, Copy)]
pub struct SyncOnlyCopy(pub PhantomData<*const u8>, pub u8);
unsafe impl Sync for SyncOnlyCopy {}
/// !Send, !Sync, Copy
#[derive(Clone, Copy)]
pub struct NeitherCopy(pub *const u8);
/// !Send, !Sync, Copy (a shared reference to a !Sync value)
#[derive(Clone, Copy)]
pub struct NeitherRefCopy(pub &'static Cell<u8>);
