#!/bin/bash
# eval_one.sh <seed> <check>...   (waits while the thorough loop may be compiling)
cd /verif
seed=$1; shift
touch work/eval.busy
while [ -e work/thorough.building ]; do sleep 5; done
P=/tmp/seed/$seed/patch.diff; [ -f /tmp/seed/$seed/patch.rebased.diff ] && P=/tmp/seed/$seed/patch.rebased.diff
git -C /repo apply $P || { echo "$seed: APPLY FAILED"; rm -f work/eval.busy; exit 1; }
for c in "$@"; do
  out=$(bin/check $c quick 2>&1); rc=$?
  key=$(echo "$out" | grep -m1 '^VIOLATION' | sed -E 's/.*key=([^ ]+).*/\1/')
  n=$(echo "$out" | grep -c '^VIOLATION')
  echo "$seed $c rc=$rc violations=$n first_key=$key" | tee -a work/eval_seeds10.log
  echo "$out" | grep -m2 '^VIOLATION' | cut -c1-330
done
git -C /repo checkout -- .
rm -f work/eval.busy
