#!/bin/bash
# verify_seed.sh <id> <demo-subdir-or-.> <demo cargo args...>
# In /tmp/wt/<id> (patch applied, demo in place): suite with patch, demo with patch (must fail), demo without patch (must pass).
id=$1; sub=$2; shift 2
W=/tmp/wt/$id; P=/tmp/seed/$id/patch.diff
cd $W || exit 9
export CARGO_NET_OFFLINE=true
git apply --check -R $P 2>/dev/null || { git apply $P || { echo "$id: patch state unclear"; exit 9; }; }
s1=0
for i in 1 2; do cargo test -p truc -p truc_runtime --lib --offline >/tmp/seed/$id/suite_$i.log 2>&1 || s1=1; done
cargo build --workspace --offline >/tmp/seed/$id/build.log 2>&1 || s1=1
n=$(grep -h "test result" /tmp/seed/$id/suite_2.log | awk '{s+=$4} END{print s}')
( cd $W/$sub && cargo test --offline "$@" >/tmp/seed/$id/demo_with.log 2>&1 ); d1=$?
git apply -R $P
( cd $W/$sub && cargo test --offline "$@" >/tmp/seed/$id/demo_without.log 2>&1 ); d2=$?
git apply $P
echo "$id: suite_with_patch_rc=$s1 (tests passed: $n) demo_with_patch_rc=$d1 demo_without_patch_rc=$d2"
