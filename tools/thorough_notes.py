import json,glob,os,re
rows=[]
summ={}
for l in open('/verif/work/thorough-summary.log'):
    m=re.match(r'(C\d+) rc=(\d+) ~?(\d+)s (\d+) violation-lines',l)
    if m: summ[m.group(1)]=(int(m.group(2)),int(m.group(3)))
out=["# Thorough tier: last runs on the repaired tree","",
"Produced from the evidence each `bin/check <ID> thorough` run wrote (copies kept outside the repository while the quick tier rewrote `evidence/`). 16 cores; engine A passes share a 45-minute cap per check and report level-complete; the memory cap is 36 GB resident.","",
"| check | exit | wall (s) | states | transitions | exhaustive within the stated bounds | note |","|---|---|---|---|---|---|---|"]
for p in sorted(summ):
    f=f'/verif/work/thorough-evidence-{p}.json'
    if not os.path.exists(f): continue
    d=json.load(open(f)); c=d.get('coverage',{})
    st=c.get('states',''); tr=c.get('transitions',c.get('evaluations',''))
    ex=c.get('exhaustive','')
    note=''
    if 'miri_tier' in c: note='Miri tier: '+json.dumps(c['miri_tier'])[:160]
    rc,w=summ[p]
    out.append(f"| {p} | {rc} | {w} | {st} | {tr} | {ex} | {note} |")
open('/verif/notes/thorough-runs.md','w').write("\n".join(out)+"\n")
print("\n".join(out[-22:]))
