#!/bin/bash
# thorough tier of the given checks, one after the other; mutual exclusion with work/eval_one.sh
# (thorough.building = a check that may build from /repo is running; eval.busy = a seed is or will be applied)
cd /verif
for p in "$@"; do
  while true; do
    touch work/thorough.building
    if [ -e work/eval.busy ]; then rm -f work/thorough.building; sleep 7; else break; fi
  done
  s=$(date +%s)
  bin/check $p thorough > work/thorough-$p.log 2>&1; rc=$?
  echo "$p rc=$rc $(( $(date +%s) - s ))s $(grep -c '^VIOLATION' work/thorough-$p.log) violation-lines [$(date +%H:%M)]" >> work/thorough-summary.log
  cp evidence/$p.json work/thorough-evidence-$p.json
  rm -f work/thorough.building
  sleep 3
done
